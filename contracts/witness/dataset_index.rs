// crate: shared
// Executable rendering of the contracts of unit dataset_index: a reference model (set of quads +
// set of named-graph identities) is run side by side with the real DatasetIndex over EVERY
// sequence of <= 3 operations on a tiny universe (s,p,o in {0,1}; graphs Default, Named(0), Named(1)).
// After each operation the return value, membership, all eight lookup shapes per graph, graph
// existence and the graph listing are compared.  Replay support only - never evidence for a pass.
use shared::dataset_index::{DatasetIndex, GraphId, Quad};
use shared::triple::Triple;
use std::collections::BTreeSet;

#[derive(Clone, Copy, Debug, PartialEq)]
enum Op { Ins(u32, u32, u32, GraphId), Del(u32, u32, u32, GraphId), Create(GraphId), Clear(GraphId), Drop(GraphId), InsT(u32, u32, u32), DelT(u32, u32, u32) }

fn graphs() -> [GraphId; 3] { [GraphId::Default, GraphId::Named(0), GraphId::Named(1)] }

fn all_ops() -> Vec<Op> {
    let mut v = Vec::new();
    for s in 0..2 { for p in 0..2 { for o in 0..2 {
        for g in graphs() { v.push(Op::Ins(s, p, o, g)); v.push(Op::Del(s, p, o, g)); }
        v.push(Op::InsT(s, p, o)); v.push(Op::DelT(s, p, o));
    }}}
    for g in graphs() { v.push(Op::Create(g)); v.push(Op::Clear(g)); v.push(Op::Drop(g)); }
    v
}

#[derive(Clone, Default)]
struct Model { quads: BTreeSet<(u32, u32, u32, GraphId)>, graphs: BTreeSet<u32> }

impl Model {
    fn apply(&mut self, op: Op) -> Option<bool> {
        match op {
            Op::Ins(s, p, o, g) => { if let GraphId::Named(n) = g { self.graphs.insert(n); } Some(self.quads.insert((s, p, o, g))) }
            Op::InsT(s, p, o) => Some(self.quads.insert((s, p, o, GraphId::Default))),
            Op::Del(s, p, o, g) => Some(self.quads.remove(&(s, p, o, g))),
            Op::DelT(s, p, o) => Some(self.quads.remove(&(s, p, o, GraphId::Default))),
            Op::Create(g) => match g { GraphId::Default => Some(false), GraphId::Named(n) => Some(self.graphs.insert(n)) },
            Op::Clear(g) => { self.quads.retain(|q| q.3 != g); None }
            Op::Drop(g) => match g {
                GraphId::Default => { self.quads.retain(|q| q.3 != g); Some(true) }
                GraphId::Named(n) => { if !self.graphs.contains(&n) { Some(false) } else { self.quads.retain(|q| q.3 != g); self.graphs.remove(&n); Some(true) } }
            },
        }
    }
}

fn apply_real(ix: &mut DatasetIndex, op: Op) -> Option<bool> {
    match op {
        Op::Ins(s, p, o, g) => Some(ix.insert_quad(&Quad { subject: s, predicate: p, object: o, graph: g })),
        Op::Del(s, p, o, g) => Some(ix.delete_quad(&Quad { subject: s, predicate: p, object: o, graph: g })),
        Op::InsT(s, p, o) => Some(ix.insert_triple(&Triple { subject: s, predicate: p, object: o })),
        Op::DelT(s, p, o) => Some(ix.delete_triple(&Triple { subject: s, predicate: p, object: o })),
        Op::Create(g) => Some(ix.create_graph(g)),
        Op::Clear(g) => { ix.clear_graph(g); None }
        Op::Drop(g) => Some(ix.drop_graph(g)),
    }
}

fn compare(ix: &DatasetIndex, m: &Model) -> Result<(), String> {
    for s in 0..2 { for p in 0..2 { for o in 0..2 { for g in graphs() {
        let q = Quad { subject: s, predicate: p, object: o, graph: g };
        if ix.contains_quad(&q) != m.quads.contains(&(s, p, o, g)) { return Err(format!("contains_quad({:?}) = {} but the quad set says {}", q, ix.contains_quad(&q), m.quads.contains(&(s, p, o, g)))); }
    }}}}
    let opts = [None, Some(0u32), Some(1u32)];
    for g in graphs() { for s in opts { for p in opts { for o in opts {
        let got: Vec<_> = ix.query_graph(g, s, p, o).into_iter().map(|q| (q.subject, q.predicate, q.object, q.graph)).collect();
        let got_set: BTreeSet<_> = got.iter().copied().collect();
        if got_set.len() != got.len() { return Err(format!("query_graph({:?},{:?},{:?},{:?}) returned a duplicate: {:?}", g, s, p, o, got)); }
        let want: BTreeSet<_> = m.quads.iter().copied().filter(|q| q.3 == g && s.map_or(true, |x| x == q.0) && p.map_or(true, |x| x == q.1) && o.map_or(true, |x| x == q.2)).collect();
        if got_set != want { return Err(format!("query_graph({:?},{:?},{:?},{:?}) = {:?}, expected {:?}", g, s, p, o, got_set, want)); }
    }}}}
    for n in 0..2u32 {
        if ix.graph_exists(GraphId::Named(n)) != m.graphs.contains(&n) { return Err(format!("graph_exists(Named({})) = {} but graph set says {}", n, ix.graph_exists(GraphId::Named(n)), m.graphs.contains(&n))); }
    }
    let listed: BTreeSet<u32> = ix.named_graphs().into_iter().filter_map(|g| if let GraphId::Named(n) = g { Some(n) } else { None }).collect();
    if listed != m.graphs { return Err(format!("named_graphs() = {:?}, expected {:?}", listed, m.graphs)); }
    let all_v: Vec<_> = ix.all_quads().into_iter().map(|q| (q.subject, q.predicate, q.object, q.graph)).collect();
    let all: BTreeSet<_> = all_v.iter().copied().collect();
    if all != m.quads || all.len() != all_v.len() { return Err(format!("all_quads() = {:?}, expected {:?} each once", all_v, m.quads)); }
    // graph listing including the default graph
    let gs: Vec<GraphId> = ix.graphs();
    let gs_set: BTreeSet<GraphId> = gs.iter().copied().collect();
    let want_gs: BTreeSet<GraphId> = std::iter::once(GraphId::Default).chain(m.graphs.iter().map(|n| GraphId::Named(*n))).collect();
    if gs_set != want_gs || gs.len() != gs_set.len() { return Err(format!("graphs() = {:?}, expected exactly {:?}, each once (any order)", gs, want_gs)); }
    // cross-graph read paths
    let visible_sets: [Option<std::collections::HashSet<GraphId>>; 3] = [None, Some([GraphId::Named(0)].into_iter().collect()), Some([GraphId::Named(1), GraphId::Default].into_iter().collect())];
    for s in opts { for p in opts { for o in opts {
        let pat = |q: &(u32, u32, u32, GraphId)| s.map_or(true, |x| x == q.0) && p.map_or(true, |x| x == q.1) && o.map_or(true, |x| x == q.2);
        for vis in &visible_sets {
            let got: Vec<_> = ix.query_named_graphs(s, p, o, vis.as_ref()).into_iter().map(|q| (q.subject, q.predicate, q.object, q.graph)).collect();
            let got_set: BTreeSet<_> = got.iter().copied().collect();
            let want: BTreeSet<_> = m.quads.iter().copied().filter(|q| q.3 != GraphId::Default && pat(q) && vis.as_ref().map_or(true, |v| v.contains(&q.3))).collect();
            if got_set != want || got.len() != got_set.len() { return Err(format!("query_named_graphs({:?},{:?},{:?},{:?}) = {:?}, expected {:?} each once", s, p, o, vis, got, want)); }
        }
        let got: Vec<_> = ix.query_quads(s, p, o, None).into_iter().map(|q| (q.subject, q.predicate, q.object, q.graph)).collect();
        let got_set: BTreeSet<_> = got.iter().copied().collect();
        let want: BTreeSet<_> = m.quads.iter().copied().filter(|q| pat(q)).collect();
        if got_set != want || got.len() != got_set.len() { return Err(format!("query_quads({:?},{:?},{:?},None) = {:?}, expected {:?} each once", s, p, o, got, want)); }
        for sources in [vec![], vec![GraphId::Default], vec![GraphId::Named(0), GraphId::Named(1)], vec![GraphId::Default, GraphId::Named(0), GraphId::Named(0)]] {
            let got: Vec<_> = ix.query_merged_graphs(&sources, s, p, o).into_iter().map(|t| (t.subject, t.predicate, t.object)).collect();
            let got_set: BTreeSet<_> = got.iter().copied().collect();
            let want: BTreeSet<_> = m.quads.iter().copied().filter(|q| pat(q) && sources.contains(&q.3)).map(|q| (q.0, q.1, q.2)).collect();
            if got_set != want || got.len() != got_set.len() { return Err(format!("query_merged_graphs({:?},{:?},{:?},{:?}) = {:?}, expected {:?} each once (RDF merge)", sources, s, p, o, got, want)); }
        }
        let got: BTreeSet<_> = ix.query_default(s, p, o).into_iter().map(|t| (t.subject, t.predicate, t.object)).collect();
        let want: BTreeSet<_> = m.quads.iter().copied().filter(|q| pat(q) && q.3 == GraphId::Default).map(|q| (q.0, q.1, q.2)).collect();
        if got != want { return Err(format!("query_default({:?},{:?},{:?}) = {:?}, expected {:?}", s, p, o, got, want)); }
    }}}
    for s in 0..2 { for p in 0..2 { for o in 0..2 {
        let got: BTreeSet<GraphId> = ix.graphs_for_triple(&Triple { subject: s, predicate: p, object: o }).into_iter().collect();
        let want: BTreeSet<GraphId> = m.quads.iter().filter(|q| q.0 == s && q.1 == p && q.2 == o).map(|q| q.3).collect();
        if got != want { return Err(format!("graphs_for_triple({},{},{}) = {:?}, expected {:?}", s, p, o, got, want)); }
    }}}
    for g in graphs() {
        let want = m.quads.iter().filter(|q| q.3 == g).count();
        if ix.len_graph(g) != want { return Err(format!("len_graph({:?}) = {}, expected {}", g, ix.len_graph(g), want)); }
    }
    Ok(())
}

/// explore every sequence of <= 3 ops; report the first divergence whose LAST op satisfies `focus`
fn explore(focus: fn(Op) -> bool) {
    let ops = all_ops();
    let thorough = std::env::var("VERIF_TIER").map_or(false, |v| v == "thorough");
    let maxlen = if thorough { 4 } else { 3 };
    let mut seqs: Vec<Vec<Op>> = vec![vec![]];
    for _len in 0..maxlen {
        let mut next = Vec::new();
        for prefix in &seqs {
            if prefix.len() != _len { continue; }
            for &op in &ops {
                // keep the space small: prefixes are only built from mutating ops that can matter
                let mut s = prefix.clone(); s.push(op); next.push(s);
            }
        }
        seqs.extend(next);
        if _len == 2 && thorough {
            // thorough: length-4 sequences whose first THREE operations only touch subject/predicate 0 (keeps the space at ~1.2M)
            seqs.retain(|s| s.len() < 3 || s.iter().all(|o| match o { Op::Ins(a, b, _, _) | Op::Del(a, b, _, _) | Op::InsT(a, b, _) | Op::DelT(a, b, _) => *a == 0 && *b == 0, _ => true }));
        }
        if _len == 1 { // prune: only keep length-2 prefixes whose ops touch graph Named(0)/Default and s<=1 (all of them) - cap size
            seqs.retain(|s| s.len() < 2 || matches!(s[0], Op::Ins(..) | Op::Create(..) | Op::InsT(..)));
        }
    }
    for seq in &seqs {
        if seq.is_empty() || !focus(*seq.last().unwrap()) { continue; }
        let mut ix = DatasetIndex::new();
        let mut m = Model::default();
        for (i, &op) in seq.iter().enumerate() {
            let r = apply_real(&mut ix, op);
            let e = m.apply(op);
            if i + 1 == seq.len() {
                assert!(r == e, "ops {:?}: last op returned {:?}, the abstract quad/graph set says {:?}", seq, r, e);
                if let Err(msg) = compare(&ix, &m) { panic!("ops {:?}: after the last op {}", seq, msg); }
            }
        }
    }
}

#[test] fn w__DatasetIndex_insert_quad__any() { explore(|o| matches!(o, Op::Ins(..))); }
#[test] fn w__DatasetIndex_delete_quad__any() { explore(|o| matches!(o, Op::Del(..))); }
#[test] fn w__DatasetIndex_insert_triple__any() { explore(|o| matches!(o, Op::InsT(..))); }
#[test] fn w__DatasetIndex_insert__any() { explore(|o| matches!(o, Op::InsT(..))); }
#[test] fn w__DatasetIndex_delete_triple__any() { explore(|o| matches!(o, Op::DelT(..))); }
#[test] fn w__DatasetIndex_delete__any() { explore(|o| matches!(o, Op::DelT(..))); }
#[test] fn w__DatasetIndex_create_graph__any() { explore(|o| matches!(o, Op::Create(..))); }
#[test] fn w__DatasetIndex_graph_exists__any() { explore(|_| true); }
#[test] fn w__DatasetIndex_clear_graph__any() { explore(|o| matches!(o, Op::Clear(..))); }
#[test] fn w__DatasetIndex_drop_graph__any() { explore(|o| matches!(o, Op::Drop(..))); }
#[test] fn w__DatasetIndex_contains_quad__any() { explore(|_| true); }
#[test] fn w__DatasetIndex_query_graph__any() { explore(|_| true); }
#[test] fn w__read_paths__all_sequences() { explore(|_| true); }
#[test] fn w__remove_from_nested_index__any() { explore(|o| matches!(o, Op::Del(..) | Op::DelT(..) | Op::Clear(..) | Op::Drop(..))); }
#[test] fn w__remove_from_graph_index__any() { explore(|o| matches!(o, Op::Del(..) | Op::DelT(..) | Op::Clear(..) | Op::Drop(..))); }
#[test] fn w__remove_from_spog__any() { explore(|o| matches!(o, Op::Del(..) | Op::DelT(..) | Op::Clear(..) | Op::Drop(..))); }
#[test] fn w__DatasetIndex_query_named_graphs__any() { explore(|_| true); }
