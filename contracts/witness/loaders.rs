// crate: kolibrie
// BOUNDED stand-in for C13 (loaders are rayon + string code no verifier here reads): for every loader of the
// line-oriented formats, every document size in {0,1,2,3,999,1000,1001,2001} (around the 1000-line chunk
// boundary) and every prior content in {empty, a database already holding terms that also occur in the
// document and terms that do not}, the store afterwards holds the previous quads plus exactly the
// document's triples, compared LEXICALLY.  Replay support / bounded stand-in only.
use kolibrie::sparql_database::SparqlDatabase;
use std::collections::BTreeSet;

type L = BTreeSet<(String, String, String)>;

fn lexical(db: &SparqlDatabase) -> L {
    db.dataset_index.all_quads().into_iter().map(|q| (
        db.decode_any(q.subject).unwrap_or_default(), db.decode_any(q.predicate).unwrap_or_default(), db.decode_any(q.object).unwrap_or_default())).collect()
}
fn doc(n: usize) -> (String, L) {
    let mut s = String::new();
    let mut l = L::new();
    for i in 0..n {
        // objects repeat (i % 7) so that terms are shared between lines and between chunks
        let (a, p, b) = (format!("http://e/s{}", i), format!("http://e/p{}", i % 3), format!("http://e/o{}", i % 7));
        s.push_str(&format!("<{}> <{}> <{}> .\n", a, p, b));
        l.insert((a, p, b));
    }
    (s, l)
}
fn prior(kind: usize) -> (SparqlDatabase, L) {
    let mut db = SparqlDatabase::new();
    let mut l = L::new();
    if kind >= 1 {
        // terms that do NOT occur in any document come first, so that identifiers of the two sides clash
        for (a, p, b) in [("http://x/a", "http://x/p", "http://x/b"), ("http://x/c", "http://e/p1", "http://e/o3")] {
            db.add_triple_parts(a, p, b);
            l.insert((a.to_string(), p.to_string(), b.to_string()));
        }
    }
    if kind == 2 {
        // all prior content deleted again / only in a named graph: the default graph is empty but the dictionary is not
        for (a, p, b) in [("http://x/a", "http://x/p", "http://x/b"), ("http://x/c", "http://e/p1", "http://e/o3")] {
            db.delete_triple_parts(a, p, b);
        }
        l.clear();
    }
    (db, l)
}
fn check(name: &str, load: fn(&mut SparqlDatabase, &str)) {
    let sizes: Vec<usize> = if std::env::var("VERIF_TIER").map_or(false, |v| v == "thorough") { vec![0, 1, 2, 3, 7, 500, 999, 1000, 1001, 1999, 2000, 2001, 3001, 5000] } else { vec![0, 1, 2, 3, 999, 1000, 1001, 2001] };
    for kind in 0..3 { for n in sizes.iter().copied() {
        let (mut db, before) = prior(kind);
        assert_eq!(lexical(&db), before);
        let (text, triples) = doc(n);
        load(&mut db, &text);
        let want: L = before.union(&triples).cloned().collect();
        let got = lexical(&db);
        if got != want {
            let missing: Vec<_> = want.difference(&got).take(3).collect();
            let foreign: Vec<_> = got.difference(&want).take(3).collect();
            panic!("{}: prior content {} ({} quads), document of {} lines: store has {} quads, expected {}; missing e.g. {:?}; foreign e.g. {:?}",
                name, ["empty", "non-empty", "emptied again (dictionary still populated)"][kind], before.len(), n, got.len(), want.len(), missing, foreign);
        }
    }}
}

#[test] fn w__parse_ntriples_and_add__any() { check("parse_ntriples_and_add", |db, t| db.parse_ntriples_and_add(t)); }
#[test] fn w__parse_n3__any() { check("parse_n3", |db, t| db.parse_n3(t)); }
#[test] fn w__parse_turtle__any() { check("parse_turtle", |db, t| db.parse_turtle(t)); }
#[test] fn w__parse_nquads_and_add__any() { check("parse_nquads_and_add", |db, t| db.parse_nquads_and_add(t)); }

/// the same triples written in different formats load identically
#[test] fn w__formats_agree__any() {
    let (text, _) = doc(1500);
    let mut a = SparqlDatabase::new(); a.parse_ntriples_and_add(&text);
    let mut b = SparqlDatabase::new(); b.parse_n3(&text);
    let mut c = SparqlDatabase::new(); c.parse_turtle(&text);
    let mut d = SparqlDatabase::new(); d.parse_nquads_and_add(&text);
    assert!(lexical(&a) == lexical(&b), "N-Triples and N3 loaders disagree on the same 1500-line document");
    assert!(lexical(&a) == lexical(&c), "N-Triples and Turtle loaders disagree on the same 1500-line document");
    assert!(lexical(&a) == lexical(&d), "N-Triples and N-Quads loaders disagree on the same 1500-line document");
}

// ---- prefixed names: declarations, chunk boundaries, rebinding (C13: "prefix declarations seen by one chunk only") ----
const NS_A: &str = "http://one.example/";
const NS_B: &str = "http://two.example/";

/// `n` statements `ex:s<i> ex:p<i%3> ex:o<i%7> .` under the namespace `ns`, numbered from `from`
fn prefixed_lines(ns: &str, from: usize, n: usize) -> (String, L) {
    let mut s = String::new();
    let mut l = L::new();
    for i in from..from + n {
        s.push_str(&format!("ex:s{} ex:p{} ex:o{} .\n", i, i % 3, i % 7));
        l.insert((format!("{}s{}", ns, i), format!("{}p{}", ns, i % 3), format!("{}o{}", ns, i % 7)));
    }
    (s, l)
}
fn prefixed_doc(ns: &str, n: usize) -> (String, L) {
    let (body, l) = prefixed_lines(ns, 0, n);
    (format!("@prefix ex: <{}> .\n{}", ns, body), l)
}
fn report(name: &str, ctx: &str, got: &L, want: &L) {
    if got != want {
        let missing: Vec<_> = want.difference(got).take(3).collect();
        let foreign: Vec<_> = got.difference(want).take(3).collect();
        panic!("{}: {}: store has {} quads, expected {}; missing e.g. {:?}; foreign e.g. {:?}", name, ctx, got.len(), want.len(), missing, foreign);
    }
}
fn check_prefixed(name: &str, load: fn(&mut SparqlDatabase, &str)) {
    let sizes: Vec<usize> = if std::env::var("VERIF_TIER").map_or(false, |v| v == "thorough") { vec![0, 1, 2, 998, 999, 1000, 1001, 1999, 2000, 2001, 3500] } else { vec![0, 1, 2, 998, 999, 1000, 1001, 2001] };
    for kind in 0..3 { for n in sizes.iter().copied() {
        let (mut db, before) = prior(kind);
        let (text, triples) = prefixed_doc(NS_A, n);
        load(&mut db, &text);
        let want: L = before.union(&triples).cloned().collect();
        report(name, &format!("prior content {}, document of one @prefix line and {} prefixed statements", ["empty", "non-empty", "emptied again"][kind], n), &lexical(&db), &want);
    }}
}
#[test] fn w__parse_turtle__prefixed_names() { check_prefixed("parse_turtle", |db, t| db.parse_turtle(t)); }
#[test] fn w__parse_n3__prefixed_names() { check_prefixed("parse_n3", |db, t| db.parse_n3(t)); }

/// what bound the label `ex` before the document is loaded
fn bind_before(how: usize, db: &mut SparqlDatabase) -> (L, &'static str) {
    match how {
        0 => { let (t, l) = prefixed_doc(NS_A, 2); db.parse_turtle(&t); (l, "an earlier Turtle document") }
        1 => { let (t, l) = prefixed_doc(NS_A, 2); db.parse_n3(&t); (l, "an earlier N3 document") }
        2 => { db.set_prefixes([("ex".to_string(), NS_A.to_string())].into()); (L::new(), "set_prefixes") }
        3 => { db.register_prefixes_from_query(&format!("PREFIX ex: <{}> SELECT * WHERE {{ ?s ?p ?o }}", NS_A)); (L::new(), "a query's PREFIX line") }
        _ => { db.parse_rdf(&format!("<rdf:RDF xmlns:rdf=\"http://www.w3.org/1999/02/22-rdf-syntax-ns#\" xmlns:ex=\"{}\"><rdf:Description rdf:about=\"{}s0\"><ex:p0 rdf:resource=\"{}o0\"/></rdf:Description></rdf:RDF>", NS_A, NS_A, NS_A));
               ([(format!("{}s0", NS_A), format!("{}p0", NS_A), format!("{}o0", NS_A))].into(), "an earlier RDF/XML document") }
    }
}
fn check_rebinding(name: &str, load: fn(&mut SparqlDatabase, &str)) {
    for how in 0..5 { for n in [1usize, 3, 1500] {
        let mut db = SparqlDatabase::new();
        let (before, what) = bind_before(how, &mut db);
        report(name, &format!("setup by {}", what), &lexical(&db), &before);
        let (text, triples) = prefixed_doc(NS_B, n);
        load(&mut db, &text);
        let want: L = before.union(&triples).cloned().collect();
        report(name, &format!("label ex: bound to <{}> by {}, then a document declaring @prefix ex: <{}> with {} statements", NS_A, what, NS_B, n), &lexical(&db), &want);
    }}
}
#[test] fn w__parse_turtle__prefix_declared_by_the_document_wins() { check_rebinding("parse_turtle", |db, t| db.parse_turtle(t)); }
#[test] fn w__parse_n3__prefix_declared_by_the_document_wins() { check_rebinding("parse_n3", |db, t| db.parse_n3(t)); }

fn check_redeclaration(name: &str, load: fn(&mut SparqlDatabase, &str)) {
    for (first, second) in [(1usize, 1usize), (3, 2), (400, 300), (998, 5), (999, 5), (1000, 5), (1500, 700)] {
        let (a, la) = prefixed_lines(NS_A, 0, first);
        let (b, lb) = prefixed_lines(NS_B, first, second);
        let text = format!("@prefix ex: <{}> .\n{}@prefix ex: <{}> .\n{}", NS_A, a, NS_B, b);
        let mut db = SparqlDatabase::new();
        load(&mut db, &text);
        let want: L = la.union(&lb).cloned().collect();
        report(name, &format!("one document: @prefix ex: <{}>, {} statements, @prefix ex: <{}>, {} statements", NS_A, first, NS_B, second), &lexical(&db), &want);
    }
}
#[test] fn w__parse_turtle__prefix_redeclared_inside_the_document() { check_redeclaration("parse_turtle", |db, t| db.parse_turtle(t)); }
#[test] fn w__parse_n3__prefix_redeclared_inside_the_document() { check_redeclaration("parse_n3", |db, t| db.parse_n3(t)); }

// ---- RDF/XML (resource-valued properties of rdf:Description elements; the loader hands triples to workers in blocks of 8192) ----
fn rdfxml_doc(n: usize) -> (String, L) {
    let mut s = format!("<?xml version=\"1.0\"?>\n<rdf:RDF xmlns:rdf=\"http://www.w3.org/1999/02/22-rdf-syntax-ns#\" xmlns:e=\"http://e/\">\n");
    let mut l = L::new();
    for i in 0..n {
        let (a, p, b) = (format!("http://e/s{}", i), format!("p{}", i % 3), format!("http://e/o{}", i % 7));
        s.push_str(&format!("<rdf:Description rdf:about=\"{}\"><e:{} rdf:resource=\"{}\"/></rdf:Description>\n", a, p, b));
        l.insert((a, format!("http://e/{}", p), b));
    }
    s.push_str("</rdf:RDF>\n");
    (s, l)
}
#[test] fn w__parse_rdf__any() {
    let sizes: Vec<usize> = if std::env::var("VERIF_TIER").map_or(false, |v| v == "thorough") { vec![0, 1, 2, 3, 1000, 8191, 8192, 8193, 16384, 16385, 20000] } else { vec![0, 1, 2, 3, 8191, 8192, 8193, 16385] };
    for kind in 0..3 { for n in sizes.iter().copied() {
        let (mut db, before) = prior(kind);
        let (text, triples) = rdfxml_doc(n);
        db.parse_rdf(&text);
        let want: L = before.union(&triples).cloned().collect();
        report("parse_rdf", &format!("prior content {}, RDF/XML document of {} descriptions", ["empty", "non-empty", "emptied again"][kind], n), &lexical(&db), &want);
    }}
}
#[test] fn w__formats_agree__rdfxml_and_prefixed() {
    for n in [3usize, 1500] {
        let (nt, _) = doc(n);
        let mut a = SparqlDatabase::new(); a.parse_ntriples_and_add(&nt);
        let (xml, _) = rdfxml_doc(n);
        let mut b = SparqlDatabase::new(); b.parse_rdf(&xml);
        assert!(lexical(&a) == lexical(&b), "N-Triples and RDF/XML loaders disagree on the same {} triples", n);
        let (ttl, _) = prefixed_doc("http://e/", n);
        let mut c = SparqlDatabase::new(); c.parse_turtle(&ttl);
        let mut d = SparqlDatabase::new(); d.parse_n3(&ttl);
        let mut e = SparqlDatabase::new(); e.parse_ntriples_and_add(&{ let mut s = String::new(); for i in 0..n { s.push_str(&format!("<http://e/s{}> <http://e/p{}> <http://e/o{}> .\n", i, i % 3, i % 7)); } s });
        assert!(lexical(&c) == lexical(&e), "Turtle with prefixed names and N-Triples disagree on the same {} triples", n);
        assert!(lexical(&d) == lexical(&e), "N3 with prefixed names and N-Triples disagree on the same {} triples", n);
    }
}

// ---- '#' inside terms, comments ------------------------------------------------------------------------------
fn hash_doc(comments: bool, trailing: bool) -> (String, L) {
    let mut s = String::new();
    if comments { s.push_str("# a comment line with <http://e/not> <http://e/a> <http://e/triple> .\n"); }
    s.push_str("<http://e/a#x> <http://e/p#q> <http://e/o#z> .\n");
    s.push_str(if trailing { "<http://e/b> <http://e/p> <http://e/o> . # trailing comment\n" } else { "<http://e/b> <http://e/p> <http://e/o> .\n" });
    s.push_str("<http://e/c> <http://e/p> \"lit # with hash\" .\n");
    let l: L = [("http://e/a#x", "http://e/p#q", "http://e/o#z"), ("http://e/b", "http://e/p", "http://e/o")].iter().map(|t| (t.0.to_string(), t.1.to_string(), t.2.to_string())).collect();
    (s, l)
}
fn check_hash(name: &str, load: fn(&mut SparqlDatabase, &str), comments: bool, trailing: bool) {
    let (text, iri_triples) = hash_doc(comments, trailing);
    let mut db = SparqlDatabase::new();
    load(&mut db, &text);
    let got = lexical(&db);
    // the literal's stored form is checked by the literal tests below; here: it is ONE more triple and keeps its text
    let lits: Vec<_> = got.iter().filter(|t| t.0 == "http://e/c").collect();
    assert!(lits.len() == 1 && lits[0].2.contains("lit # with hash"), "{}: the literal \"lit # with hash\" is stored as {:?}", name, lits);
    let rest: L = got.iter().filter(|t| t.0 != "http://e/c").cloned().collect();
    report(name, "a document whose IRIs contain '#' (fragment identifiers)", &rest, &iri_triples);
}
#[test] fn w__parse_ntriples_and_add__hash_inside_terms() { check_hash("parse_ntriples_and_add", |db, t| db.parse_ntriples_and_add(t), false, false); }
#[test] fn w__parse_nquads_and_add__hash_inside_terms() { check_hash("parse_nquads_and_add", |db, t| db.parse_nquads_and_add(t), false, false); }
#[test] fn w__parse_turtle__hash_inside_terms() { check_hash("parse_turtle", |db, t| db.parse_turtle(t), true, false); }
#[test] fn w__parse_n3__hash_inside_terms() { check_hash("parse_n3", |db, t| db.parse_n3(t), true, true); }
#[test] fn w__prefix_namespace_ending_in_hash() {
    let text = "@prefix v: <http://e/v#> .\nv:a v:p v:b .\n";
    let want: L = [("http://e/v#a".to_string(), "http://e/v#p".to_string(), "http://e/v#b".to_string())].into();
    let mut a = SparqlDatabase::new(); a.parse_turtle(text);
    report("parse_turtle", "@prefix v: <http://e/v#> and one prefixed statement", &lexical(&a), &want);
    let mut b = SparqlDatabase::new(); b.parse_n3(text);
    report("parse_n3", "@prefix v: <http://e/v#> and one prefixed statement", &lexical(&b), &want);
}

// ---- literals: representation-agnostic requirements of the property ----------------------------------------
//  (1) "exactly the document's triples": terms that differ in the document stay different in the store;
//  (2) "the same triples written in different formats load identically".
const LITERAL_LINES: [(&str, &str); 3] = [
    ("plain", "<http://e/d> <http://e/p> \"5\" .\n"),
    ("language_tagged", "<http://e/d> <http://e/p> \"5\"@en .\n"),
    ("typed", "<http://e/d> <http://e/p> \"5\"^^<http://www.w3.org/2001/XMLSchema#integer> .\n"),
];
fn objects(db: &SparqlDatabase) -> Vec<String> { lexical(db).into_iter().map(|t| t.2).collect() }
fn check_distinct(name: &str, load: fn(&mut SparqlDatabase, &str)) {
    let mut text = String::from("<http://e/d> <http://e/p> <http://e/5> .\n");
    for (_, line) in LITERAL_LINES { text.push_str(line); }
    let mut db = SparqlDatabase::new();
    load(&mut db, &text);
    let got = objects(&db);
    assert!(got.len() == 4, "{}: a document with the four different objects <http://e/5>, \"5\", \"5\"@en, \"5\"^^xsd:integer of one subject and predicate loads {} triple(s): stored objects [{}]", name, got.len(), got.join("|"));
}
#[test] fn w__literals__distinct_terms_stay_distinct__ntriples() { check_distinct("parse_ntriples_and_add", |db, t| db.parse_ntriples_and_add(t)); }
#[test] fn w__literals__distinct_terms_stay_distinct__nquads() { check_distinct("parse_nquads_and_add", |db, t| db.parse_nquads_and_add(t)); }
#[test] fn w__literals__distinct_terms_stay_distinct__turtle() { check_distinct("parse_turtle", |db, t| db.parse_turtle(t)); }
#[test] fn w__literals__distinct_terms_stay_distinct__n3() { check_distinct("parse_n3", |db, t| db.parse_n3(t)); }

fn check_agree(name: &str, load: fn(&mut SparqlDatabase, &str), kind: usize) {
    let (what, line) = LITERAL_LINES[kind];
    let mut a = SparqlDatabase::new(); a.parse_ntriples_and_add(line);
    let mut b = SparqlDatabase::new(); load(&mut b, line);
    let (oa, ob) = (objects(&a), objects(&b));
    assert!(oa.len() == 1 && ob.len() == 1, "{} literal: N-Triples loads {:?}, {} loads {:?} from the one-line document {:?}", what, oa, name, ob, line);
    assert!(oa == ob, "{} literal: the line {:?} loads differently: [{}:{}|ntriples:{}]", what, line.trim_end(), name, ob[0], oa[0]);
}
#[test] fn w__literals__n3_agrees_with_ntriples_on_plain() { check_agree("n3", |db, t| db.parse_n3(t), 0); }
#[test] fn w__literals__n3_agrees_with_ntriples_on_language_tagged() { check_agree("n3", |db, t| db.parse_n3(t), 1); }
#[test] fn w__literals__n3_agrees_with_ntriples_on_typed() { check_agree("n3", |db, t| db.parse_n3(t), 2); }
#[test] fn w__literals__turtle_agrees_with_ntriples_on_plain() { check_agree("turtle", |db, t| db.parse_turtle(t), 0); }
#[test] fn w__literals__turtle_agrees_with_ntriples_on_language_tagged() { check_agree("turtle", |db, t| db.parse_turtle(t), 1); }
#[test] fn w__literals__turtle_agrees_with_ntriples_on_typed() { check_agree("turtle", |db, t| db.parse_turtle(t), 2); }
#[test] fn w__literals__nquads_agrees_with_ntriples_on_plain() { check_agree("nquads", |db, t| db.parse_nquads_and_add(t), 0); }
#[test] fn w__literals__nquads_agrees_with_ntriples_on_language_tagged() { check_agree("nquads", |db, t| db.parse_nquads_and_add(t), 1); }
#[test] fn w__literals__nquads_agrees_with_ntriples_on_typed() { check_agree("nquads", |db, t| db.parse_nquads_and_add(t), 2); }

// ---- N-Quads: the graph name is the fourth term of the line, whatever the object looks like ----------------------
#[test] fn w__parse_nquads_and_add__every_quad_lands_in_its_graph() {
    use shared::dataset_index::GraphId;
    let objects: [(&str, &str); 9] = [
        ("iri", "<http://e/o1>"), ("plain", "\"plain\""), ("blanks", "\"two words\""), ("escaped-quote", "\"quote \\\" inside\""),
        ("trailing-backslash", "\"C:\\\\dir\\\\\""), ("angle-and-hash", "\"a<b>c#d\""), ("language-tag", "\"x\"@en"),
        ("datatype", "\"5\"^^<http://www.w3.org/2001/XMLSchema#integer>"), ("backslash-inside", "\"a\\\\b\""),
    ];
    let graphs: [Option<&str>; 3] = [None, Some("http://e/g1"), Some("http://e/g2")];
    let mut text = String::new();
    let mut want: std::collections::BTreeMap<String, Option<String>> = Default::default();
    for (oi, (name, obj)) in objects.iter().enumerate() { for (gi, g) in graphs.iter().enumerate() {
        let s = format!("http://e/s-{}-{}", name, gi);
        match g { Some(g) => text.push_str(&format!("<{}> <http://e/p{}> {} <{}> .\n", s, oi, obj, g)), None => text.push_str(&format!("<{}> <http://e/p{}> {} .\n", s, oi, obj)) }
        want.insert(s, g.map(|x| x.to_string()));
    }}
    for prior_kind in 0..2 {
        let (mut db, before) = prior(prior_kind);
        db.parse_nquads_and_add(&text);
        let mut got: std::collections::BTreeMap<String, Vec<Option<String>>> = Default::default();
        for q in db.dataset_index.all_quads() {
            let s = db.decode_any(q.subject).unwrap_or_default();
            if !s.starts_with("http://e/s-") { continue; }
            let g = match q.graph { GraphId::Default => None, GraphId::Named(g) => db.decode_any(g) };
            got.entry(s).or_default().push(g);
        }
        for (s, g) in &want {
            let placed = got.get(s).cloned().unwrap_or_default();
            assert!(placed == vec![g.clone()], "parse_nquads_and_add (prior content #{}): the quad with subject <{}> must be stored once in graph {:?}; stored in {:?}. Document line: {:?}",
                prior_kind, s, g, placed, text.lines().find(|l| l.contains(s.as_str())).unwrap_or(""));
        }
        assert!(got.len() == want.len(), "parse_nquads_and_add: {} subjects stored, the document has {}", got.len(), want.len());
        assert!(lexical(&db).len() == before.len() + want.len(), "parse_nquads_and_add: {} quads stored, expected the {} previous ones plus {}", lexical(&db).len(), before.len(), want.len());
    }
}

// ---- predicate lists (;) and object lists (,) on one line ---------------------------------------------------------
fn check_lists(name: &str, load: fn(&mut SparqlDatabase, &str)) {
    let text = "<http://e/s> <http://e/p> <http://e/o1> , <http://e/o2> ; <http://e/q> <http://e/o3> .\n<http://e/t> <http://e/p> <http://e/o1> , <http://e/o2> , <http://e/o3> .\n<http://e/u> <http://e/p> <http://e/o1> ; <http://e/q> <http://e/o2> ; <http://e/r> <http://e/o3> .\n";
    let want: L = [("s", "p", "o1"), ("s", "p", "o2"), ("s", "q", "o3"), ("t", "p", "o1"), ("t", "p", "o2"), ("t", "p", "o3"), ("u", "p", "o1"), ("u", "q", "o2"), ("u", "r", "o3")]
        .iter().map(|t| (format!("http://e/{}", t.0), format!("http://e/{}", t.1), format!("http://e/{}", t.2))).collect();
    let mut db = SparqlDatabase::new();
    load(&mut db, text);
    report(name, "three statements with object lists (,) and predicate lists (;)", &lexical(&db), &want);
}
#[test] fn w__parse_turtle__predicate_and_object_lists() { check_lists("parse_turtle", |db, t| db.parse_turtle(t)); }
#[test] fn w__parse_n3__predicate_and_object_lists() { check_lists("parse_n3", |db, t| db.parse_n3(t)); }

// ---- layout of a line-oriented document: CRLF, blank and comment lines, no final newline, duplicates, loading twice ------
fn layout_variants(n: usize) -> Vec<(&'static str, String, L)> {
    let (canonical, triples) = doc(n);
    let lines: Vec<&str> = canonical.lines().collect();
    let mut v = Vec::new();
    v.push(("CRLF line ends", lines.iter().map(|l| format!("{}\r\n", l)).collect::<String>(), triples.clone()));
    v.push(("no final newline", canonical.trim_end().to_string(), triples.clone()));
    v.push(("blank and comment lines", lines.iter().enumerate().map(|(i, l)| if i % 3 == 0 { format!("\n# comment {}\n{}\n", i, l) } else { format!("{}\n", l) }).collect::<String>(), triples.clone()));
    v.push(("leading and trailing blanks", lines.iter().map(|l| format!("  \t{}  \n", l)).collect::<String>(), triples.clone()));
    v.push(("every line twice", lines.iter().map(|l| format!("{}\n{}\n", l, l)).collect::<String>(), triples.clone()));
    // whole 1000-line stretches without a statement: a comment header and a blank section in the middle (the loaders cut the
    // document into blocks of 1000 lines; a block may hold no statement at all)
    v.push(("1000 comment lines first", format!("{}{}", "# header\n".repeat(1000), canonical), triples.clone()));
    v.push(("2500 blank lines in the middle", { let half = lines.len() / 2; format!("{}\n{}{}\n", lines[..half].join("\n"), "\n".repeat(2500), lines[half..].join("\n")) }, triples.clone()));
    v.push(("1999 comment lines after the first statement", format!("{}\n{}{}\n", lines[0], "# gap\n".repeat(1999), lines[1..].join("\n")), triples.clone()));
    v
}
fn check_layout(name: &str, load: fn(&mut SparqlDatabase, &str)) {
    for n in [4usize, 1001] {
        for (what, text, triples) in layout_variants(n) {
            let mut db = SparqlDatabase::new();
            load(&mut db, &text);
            report(name, &format!("{} triples, {}", n, what), &lexical(&db), &triples);
            load(&mut db, &text);
            report(name, &format!("{} triples, {}, the same document loaded a second time", n, what), &lexical(&db), &triples);
        }
    }
}
#[test] fn w__parse_ntriples_and_add__layout() { check_layout("parse_ntriples_and_add", |db, t| db.parse_ntriples_and_add(t)); }
#[test] fn w__parse_nquads_and_add__layout() { check_layout("parse_nquads_and_add", |db, t| db.parse_nquads_and_add(t)); }
#[test] fn w__parse_turtle__layout() { check_layout("parse_turtle", |db, t| db.parse_turtle(t)); }
#[test] fn w__parse_n3__layout() { check_layout("parse_n3", |db, t| db.parse_n3(t)); }
#[test] fn w__parse_rdf__repeated_subjects_and_reload() {
    // two rdf:Description elements for one subject, several properties in one element, the document loaded twice
    let text = "<?xml version=\"1.0\"?>\n<rdf:RDF xmlns:rdf=\"http://www.w3.org/1999/02/22-rdf-syntax-ns#\" xmlns:e=\"http://e/\">\n<rdf:Description rdf:about=\"http://e/s\"><e:p rdf:resource=\"http://e/o1\"/><e:q rdf:resource=\"http://e/o2\"/></rdf:Description>\n<rdf:Description rdf:about=\"http://e/t\"><e:p rdf:resource=\"http://e/o1\"/></rdf:Description>\n<rdf:Description rdf:about=\"http://e/s\"><e:p rdf:resource=\"http://e/o3\"/><e:p rdf:resource=\"http://e/o1\"/></rdf:Description>\n</rdf:RDF>\n";
    let want: L = [("s", "p", "o1"), ("s", "q", "o2"), ("t", "p", "o1"), ("s", "p", "o3")].iter().map(|t| (format!("http://e/{}", t.0), format!("http://e/{}", t.1), format!("http://e/{}", t.2))).collect();
    let mut db = SparqlDatabase::new();
    db.parse_rdf(text);
    report("parse_rdf", "two descriptions of one subject, several properties per description", &lexical(&db), &want);
    db.parse_rdf(text);
    report("parse_rdf", "the same RDF/XML document loaded a second time", &lexical(&db), &want);
}

// ---- RDF/XML: text-valued properties, the built-in rdf:type / rdfs:label / rdfs:subClassOf elements between generic ones ----
#[test] fn w__parse_rdf__text_valued_and_builtin_properties() {
    let head = "<?xml version=\"1.0\"?>\n<rdf:RDF xmlns:rdf=\"http://www.w3.org/1999/02/22-rdf-syntax-ns#\" xmlns:rdfs=\"http://www.w3.org/2000/01/rdf-schema#\" xmlns:e=\"http://e/\">\n";
    // every order of three property elements taken from: generic text (twice the same name), rdfs:label text, generic resource
    let elems: [(&str, &str, &str); 4] = [
        ("<e:nick>first</e:nick>", "http://e/nick", "first"), ("<rdfs:label>Label</rdfs:label>", "LABEL", "Label"),
        ("<e:nick>second</e:nick>", "http://e/nick", "second"), ("<e:knows rdf:resource=\"http://e/o\"/>", "http://e/knows", "http://e/o"),
    ];
    // what the loader stores for rdfs:label when it stands alone (its own convention) - taken from a one-element document
    let label_pred = { let mut db = SparqlDatabase::new(); db.parse_rdf(&format!("{}<rdf:Description rdf:about=\"http://e/s\">{}</rdf:Description>\n</rdf:RDF>\n", head, elems[1].0)); let l = lexical(&db); assert!(l.len() == 1, "a single rdfs:label element loads {:?}", l); l.into_iter().next().unwrap().1 };
    for a in 0..4 { for b in 0..4 { for c in 0..4 {
        if a == b || b == c || a == c { continue; }
        let text = format!("{}<rdf:Description rdf:about=\"http://e/s\">{}{}{}</rdf:Description>\n<rdf:Description rdf:about=\"http://e/t\">{}</rdf:Description>\n</rdf:RDF>\n", head, elems[a].0, elems[b].0, elems[c].0, elems[0].0);
        let mut want = L::new();
        for i in [a, b, c] { want.insert(("http://e/s".to_string(), if elems[i].1 == "LABEL" { label_pred.clone() } else { elems[i].1.to_string() }, elems[i].2.to_string())); }
        want.insert(("http://e/t".to_string(), "http://e/nick".to_string(), "first".to_string()));
        let mut db = SparqlDatabase::new();
        db.parse_rdf(&text);
        report("parse_rdf", &format!("one description with the property elements {} {} {} (and a second description)", elems[a].0, elems[b].0, elems[c].0), &lexical(&db), &want);
    }}}
}
