// crate: kolibrie
// BOUNDED stand-in for C13 (loaders are rayon + string code no verifier here reads): for every loader of the
// line-oriented formats, every document size in {0,1,2,3,999,1000,1001,2001} (around the 1000-line chunk
// boundary) and every prior content in {empty, a database already holding terms that also occur in the
// document and terms that do not}, the store afterwards holds the previous quads plus exactly the
// document's triples, compared LEXICALLY.  Replay support / bounded stand-in only.
use kolibrie::sparql_database::SparqlDatabase;
use std::collections::BTreeSet;

type L = BTreeSet<(String, String, String)>;

fn lexical(db: &SparqlDatabase) -> L {
    db.dataset_index.all_quads().into_iter().map(|q| (
        db.decode_any(q.subject).unwrap_or_default(), db.decode_any(q.predicate).unwrap_or_default(), db.decode_any(q.object).unwrap_or_default())).collect()
}
fn doc(n: usize) -> (String, L) {
    let mut s = String::new();
    let mut l = L::new();
    for i in 0..n {
        // objects repeat (i % 7) so that terms are shared between lines and between chunks
        let (a, p, b) = (format!("http://e/s{}", i), format!("http://e/p{}", i % 3), format!("http://e/o{}", i % 7));
        s.push_str(&format!("<{}> <{}> <{}> .\n", a, p, b));
        l.insert((a, p, b));
    }
    (s, l)
}
fn prior(kind: usize) -> (SparqlDatabase, L) {
    let mut db = SparqlDatabase::new();
    let mut l = L::new();
    if kind >= 1 {
        // terms that do NOT occur in any document come first, so that identifiers of the two sides clash
        for (a, p, b) in [("http://x/a", "http://x/p", "http://x/b"), ("http://x/c", "http://e/p1", "http://e/o3")] {
            db.add_triple_parts(a, p, b);
            l.insert((a.to_string(), p.to_string(), b.to_string()));
        }
    }
    if kind == 2 {
        // all prior content deleted again / only in a named graph: the default graph is empty but the dictionary is not
        for (a, p, b) in [("http://x/a", "http://x/p", "http://x/b"), ("http://x/c", "http://e/p1", "http://e/o3")] {
            db.delete_triple_parts(a, p, b);
        }
        l.clear();
    }
    (db, l)
}
fn check(name: &str, load: fn(&mut SparqlDatabase, &str)) {
    let sizes: Vec<usize> = if std::env::var("VERIF_TIER").map_or(false, |v| v == "thorough") { vec![0, 1, 2, 3, 7, 500, 999, 1000, 1001, 1999, 2000, 2001, 3001, 5000] } else { vec![0, 1, 2, 3, 999, 1000, 1001, 2001] };
    for kind in 0..3 { for n in sizes.iter().copied() {
        let (mut db, before) = prior(kind);
        assert_eq!(lexical(&db), before);
        let (text, triples) = doc(n);
        load(&mut db, &text);
        let want: L = before.union(&triples).cloned().collect();
        let got = lexical(&db);
        if got != want {
            let missing: Vec<_> = want.difference(&got).take(3).collect();
            let foreign: Vec<_> = got.difference(&want).take(3).collect();
            panic!("{}: prior content {} ({} quads), document of {} lines: store has {} quads, expected {}; missing e.g. {:?}; foreign e.g. {:?}",
                name, ["empty", "non-empty", "emptied again (dictionary still populated)"][kind], before.len(), n, got.len(), want.len(), missing, foreign);
        }
    }}
}

#[test] fn w__parse_ntriples_and_add__any() { check("parse_ntriples_and_add", |db, t| db.parse_ntriples_and_add(t)); }
#[test] fn w__parse_n3__any() { check("parse_n3", |db, t| db.parse_n3(t)); }
#[test] fn w__parse_turtle__any() { check("parse_turtle", |db, t| db.parse_turtle(t)); }
#[test] fn w__parse_nquads_and_add__any() { check("parse_nquads_and_add", |db, t| db.parse_nquads_and_add(t)); }

/// the same triples written in different formats load identically
#[test] fn w__formats_agree__any() {
    let (text, _) = doc(1500);
    let mut a = SparqlDatabase::new(); a.parse_ntriples_and_add(&text);
    let mut b = SparqlDatabase::new(); b.parse_n3(&text);
    let mut c = SparqlDatabase::new(); c.parse_turtle(&text);
    let mut d = SparqlDatabase::new(); d.parse_nquads_and_add(&text);
    assert!(lexical(&a) == lexical(&b), "N-Triples and N3 loaders disagree on the same 1500-line document");
    assert!(lexical(&a) == lexical(&c), "N-Triples and Turtle loaders disagree on the same 1500-line document");
    assert!(lexical(&a) == lexical(&d), "N-Triples and N-Quads loaders disagree on the same 1500-line document");
}
