// crate: shared
// BOUNDED stand-in for C07 (apply / negate / compress / unique_d / wmc and the budgeted try_* operations are
// HashMap + closure code outside both verifiers).  Universe: 3 variables introduced in every order, every
// formula of <= 2 binary operators over literals (1 + 6 + 72 + 864 shapes, built in ONE manager so that
// canonicity is observable), exactly_one over every subset order, and interruption of 12 operations at every
// checkpoint and at every node budget, after which the manager must still answer exactly and canonically.
use shared::sdd::{BoolOp, SddBudgetError, SddId, SddManager, SddOperationBudget};
use std::collections::HashMap;

const N: u32 = 3;
const PROBS: [f64; 3] = [0.8, 0.6, 0.3];

fn eval(mgr: &mut SddManager, id: SddId, assignment: u32) -> bool {
    let saved: Vec<(f64, f64)> = (0..N).map(|v| (mgr.pos_weight()[v as usize], mgr.neg_weight()[v as usize])).collect();
    for v in 0..N {
        let bit = (assignment >> v) & 1 == 1;
        mgr.set_pos_weight(v, if bit { 1.0 } else { 0.0 });
        mgr.set_neg_weight(v, if bit { 0.0 } else { 1.0 });
    }
    let value = mgr.wmc(id);
    for v in 0..N { mgr.set_pos_weight(v, saved[v as usize].0); mgr.set_neg_weight(v, saved[v as usize].1); }
    assert!(value == 0.0 || value == 1.0, "indicator-weighted model count must be 0 or 1, got {}", value);
    value == 1.0
}
fn table(mgr: &mut SddManager, id: SddId) -> u8 {
    let mut t = 0u8;
    for a in 0..(1u32 << N) { if eval(mgr, id, a) { t |= 1 << a; } }
    t
}
fn var_table(v: u32) -> u8 { let mut t = 0u8; for a in 0..(1u32 << N) { if (a >> v) & 1 == 1 { t |= 1 << a; } } t }
fn table_wmc(t: u8) -> f64 {
    let mut total = 0.0;
    for a in 0..(1u32 << N) {
        if (t >> a) & 1 == 1 {
            let mut w = 1.0;
            for v in 0..N { let p = PROBS[v as usize]; w *= if (a >> v) & 1 == 1 { p } else { 1.0 - p }; }
            total += w;
        }
    }
    total
}

/// a literal: (variable, polarity)
type Lit = (u32, bool);
fn lits() -> Vec<Lit> { let mut v = Vec::new(); for x in 0..N { v.push((x, true)); v.push((x, false)); } v }
fn lit_table(l: Lit) -> u8 { if l.1 { var_table(l.0) } else { !var_table(l.0) } }
fn op_table(op: BoolOp, a: u8, b: u8) -> u8 { match op { BoolOp::And => a & b, BoolOp::Or => a | b } }

struct Checker { seen: HashMap<u8, SddId>, by_id: HashMap<SddId, u8> }
impl Checker {
    fn new() -> Self { Checker { seen: HashMap::new(), by_id: HashMap::new() } }
    /// exactness (truth table, weighted model count) and canonicity (equal functions <=> equal handles)
    fn check(&mut self, mgr: &mut SddManager, id: SddId, want: u8, what: &str, ctx: &str) {
        let got = table(mgr, id);
        assert!(got == want, "{}: diagram for {} denotes truth table {:08b}, expected {:08b}", ctx, what, got, want);
        let w = mgr.wmc(id);
        assert!((w - table_wmc(want)).abs() < 1e-9, "{}: weighted model count of {} is {}, the truth-table sum is {}", ctx, what, w, table_wmc(want));
        if let Some(prev) = self.seen.get(&want) {
            assert!(*prev == id, "{}: {} has the same Boolean function {:08b} as an earlier diagram but a different handle ({:?} vs {:?})", ctx, what, want, id, prev);
        }
        if let Some(prev_t) = self.by_id.get(&id) {
            assert!(*prev_t == want, "{}: handle {:?} of {} was handed out earlier for a DIFFERENT function {:08b} (now {:08b})", ctx, id, what, prev_t, want);
        }
        self.seen.insert(want, id);
        self.by_id.insert(id, want);
    }
}

fn all_formulas(mgr: &mut SddManager, ck: &mut Checker, ctx: &str) {
    let ls = lits();
    let ops = [BoolOp::And, BoolOp::Or];
    ck.check(mgr, SddId::TRUE, 0xff, "TRUE", ctx);
    ck.check(mgr, SddId::FALSE, 0x00, "FALSE", ctx);
    let mut level1: Vec<(SddId, u8, String)> = Vec::new();
    for &a in &ls {
        let ia = mgr.literal(a.0, a.1);
        ck.check(mgr, ia, lit_table(a), &format!("{:?}", a), ctx);
    }
    for &a in &ls { for &b in &ls { for &op in &ops {
        let (ia, ib) = (mgr.literal(a.0, a.1), mgr.literal(b.0, b.1));
        let r = mgr.apply(ia, ib, op);
        let t = op_table(op, lit_table(a), lit_table(b));
        let name = format!("({:?} {:?} {:?})", a, op, b);
        ck.check(mgr, r, t, &name, ctx);
        let n = mgr.negate(r);
        ck.check(mgr, n, !t, &format!("!{}", name), ctx);
        level1.push((r, t, name));
    }}}
    for (r, t, name) in level1.clone() { for &c in &ls { for &op in &ops {
        let ic = mgr.literal(c.0, c.1);
        let r2 = mgr.apply(r, ic, op);
        let t2 = op_table(op, t, lit_table(c));
        ck.check(mgr, r2, t2, &format!("({} {:?} {:?})", name, op, c), ctx);
        let r3 = mgr.apply(ic, r, op);
        ck.check(mgr, r3, t2, &format!("({:?} {:?} {})", c, op, name), ctx);
    }}}
    // a sample of level1 x level1 (every 7th pair) to keep the run short
    let mut k = 0usize;
    for (ra, ta, na) in &level1 { for (rb, tb, nb) in &level1 {
        k += 1; if k % 7 != 0 { continue; }
        for &op in &ops {
            let r = mgr.apply(*ra, *rb, op);
            ck.check(mgr, r, op_table(op, *ta, *tb), &format!("({} {:?} {})", na, op, nb), ctx);
        }
    }}
}

fn orders() -> Vec<[u32; 3]> { vec![[0, 1, 2], [0, 2, 1], [1, 0, 2], [1, 2, 0], [2, 0, 1], [2, 1, 0]] }
fn fresh(order: [u32; 3]) -> SddManager {
    let mut mgr = SddManager::new();
    for v in order { mgr.ensure_variable(v, PROBS[v as usize]); }
    mgr
}

#[test] fn w__sdd__exact_and_canonical_for_every_variable_order() {
    for order in orders() {
        let mut mgr = fresh(order);
        let mut ck = Checker::new();
        all_formulas(&mut mgr, &mut ck, &format!("variables introduced in order {:?}", order));
    }
}

#[test] fn w__sdd__exactly_one() {
    for order in orders() {
        for vars in [vec![0u32], vec![0, 1], vec![1, 0], vec![0, 1, 2], vec![2, 0, 1], vec![1, 2]] {
            let mut mgr = fresh(order);
            let id = mgr.exactly_one(&vars);
            let mut want = 0u8;
            for a in 0..(1u32 << N) { if vars.iter().filter(|v| (a >> **v) & 1 == 1).count() == 1 { want |= 1 << a; } }
            let mut ck = Checker::new();
            ck.check(&mut mgr, id, want, &format!("exactly_one({:?})", vars), &format!("order {:?}", order));
        }
    }
}

/// the operations that get interrupted
fn targets() -> Vec<(Lit, BoolOp, Lit, Option<(BoolOp, Lit)>)> {
    vec![((0, true), BoolOp::And, (1, true), None), ((0, true), BoolOp::Or, (1, true), None), ((0, false), BoolOp::And, (2, true), None),
         ((1, true), BoolOp::Or, (2, false), None), ((0, true), BoolOp::And, (1, true), Some((BoolOp::Or, (2, true)))),
         ((0, true), BoolOp::Or, (1, false), Some((BoolOp::And, (2, true)))), ((2, true), BoolOp::And, (1, true), Some((BoolOp::And, (0, false)))),
         ((0, false), BoolOp::Or, (1, false), Some((BoolOp::Or, (2, false))))]
}

fn run_budgeted(mgr: &mut SddManager, t: &(Lit, BoolOp, Lit, Option<(BoolOp, Lit)>), budget: &mut SddOperationBudget<'_>) -> Result<(SddId, u8), SddBudgetError> {
    let a = mgr.try_literal(t.0 .0, t.0 .1, budget)?;
    let b = mgr.try_literal(t.2 .0, t.2 .1, budget)?;
    let mut r = mgr.try_apply(a, b, t.1, budget)?;
    let mut tab = op_table(t.1, lit_table(t.0), lit_table(t.2));
    if let Some((op2, c)) = t.3 {
        let ic = mgr.try_literal(c.0, c.1, budget)?;
        r = mgr.try_apply(r, ic, op2, budget)?;
        tab = op_table(op2, tab, lit_table(c));
        let n = mgr.try_negate(r, budget)?;
        let _ = n;
    }
    Ok((r, tab))
}

#[test] fn w__sdd__interruption_at_every_checkpoint_leaves_the_manager_correct() {
    for order in [[0u32, 1, 2], [2, 1, 0]] {
        for t in targets() {
            // count the checkpoints of the uninterrupted run
            let mut total = 0usize;
            {
                let mut mgr = fresh(order);
                let mut avail = || { total += 1; true };
                let mut budget = SddOperationBudget::new(usize::MAX, &mut avail);
                run_budgeted(&mut mgr, &t, &mut budget).expect("unlimited budget");
            }
            for k in 1..=total + 1 {
                let mut mgr = fresh(order);
                let mut checks = 0usize;
                let outcome = {
                    let mut avail = || { checks += 1; checks < k };
                    let mut budget = SddOperationBudget::new(usize::MAX, &mut avail);
                    run_budgeted(&mut mgr, &t, &mut budget)
                };
                let ctx = format!("order {:?}, target {:?}, deadline at checkpoint {} of {}", order, t, k, total);
                let mut ck = Checker::new();
                match outcome {
                    Ok((id, tab)) => ck.check(&mut mgr, id, tab, "the budgeted result", &ctx),
                    Err(e) => assert!(e == SddBudgetError::DeadlineExceeded, "{}: wrong error {:?}", ctx, e),
                }
                all_formulas(&mut mgr, &mut ck, &ctx);
            }
            // node budgets
            let base = fresh(order).node_count();
            for extra in 0..8usize {
                let mut mgr = fresh(order);
                let outcome = {
                    let mut avail = || true;
                    let mut budget = SddOperationBudget::new(base + extra, &mut avail);
                    run_budgeted(&mut mgr, &t, &mut budget)
                };
                let ctx = format!("order {:?}, target {:?}, node budget {}", order, t, base + extra);
                let mut ck = Checker::new();
                match outcome {
                    Ok((id, tab)) => ck.check(&mut mgr, id, tab, "the budgeted result", &ctx),
                    Err(e) => assert!(e == SddBudgetError::NodeBudgetExceeded, "{}: wrong error {:?}", ctx, e),
                }
                all_formulas(&mut mgr, &mut ck, &ctx);
            }
        }
    }
}

// ---- weighted model count and gradient follow the manager's CURRENT weights -------------------------------
/// truth-table sum with the weights the manager reports now
fn table_wmc_now(mgr: &SddManager, t: u8) -> f64 {
    let mut total = 0.0;
    for a in 0..(1u32 << N) {
        if (t >> a) & 1 == 1 {
            let mut w = 1.0;
            for v in 0..N { w *= if (a >> v) & 1 == 1 { mgr.pos_weight()[v as usize] } else { mgr.neg_weight()[v as usize] }; }
            total += w;
        }
    }
    total
}
/// d/dp_v of the truth-table sum for an independent variable: sum(v true) - sum(v false) over the other variables' weights
fn table_gradient_now(mgr: &SddManager, t: u8, var: u32) -> f64 {
    let mut total = 0.0;
    for a in 0..(1u32 << N) {
        if (t >> a) & 1 == 1 {
            let mut w = 1.0;
            for v in 0..N { if v != var { w *= if (a >> v) & 1 == 1 { mgr.pos_weight()[v as usize] } else { mgr.neg_weight()[v as usize] }; } }
            total += if (a >> var) & 1 == 1 { w } else { -w };
        }
    }
    total
}
fn family(mgr: &mut SddManager) -> Vec<(SddId, u8, String)> {
    let ls = lits();
    let mut out = Vec::new();
    for &a in &ls { for &b in &ls { for op in [BoolOp::And, BoolOp::Or] {
        let (ia, ib) = (mgr.literal(a.0, a.1), mgr.literal(b.0, b.1));
        let r = mgr.apply(ia, ib, op);
        for &c in &ls {
            let ic = mgr.literal(c.0, c.1);
            let r2 = mgr.apply(r, ic, BoolOp::Or);
            out.push((r2, op_table(BoolOp::Or, op_table(op, lit_table(a), lit_table(b)), lit_table(c)), format!("(({:?} {:?} {:?}) Or {:?})", a, op, b, c)));
        }
        out.push((r, op_table(op, lit_table(a), lit_table(b)), format!("({:?} {:?} {:?})", a, op, b)));
    }}}
    out
}
fn check_counts(mgr: &mut SddManager, fam: &[(SddId, u8, String)], ctx: &str) {
    for (id, t, name) in fam {
        let want = table_wmc_now(mgr, *t);
        let got = mgr.wmc(*id);
        assert!((got - want).abs() < 1e-9, "{}: weighted model count of {} is {}, the truth-table sum under the manager's current weights (pos {:?}, neg {:?}) is {}", ctx, name, got, mgr.pos_weight(), mgr.neg_weight(), want);
    }
}

#[test] fn w__sdd__wmc_follows_the_current_weights() {
    for order in orders() {
        let mut mgr = fresh(order);
        let fam = family(&mut mgr);
        check_counts(&mut mgr, &fam, &format!("order {:?}, initial weights", order));
        // every public route that changes a weight, for every variable, counts taken before and after
        for var in 0..N {
            mgr.ensure_variable(var, 0.05 + 0.1 * var as f64);
            check_counts(&mut mgr, &fam, &format!("order {:?}, after ensure_variable({}, ..) re-registered the variable with another probability", order, var));
            // (weights stay normalised, pos + neg = 1: for other weightings the count of a diagram that skips a variable
            //  is by design not the truth-table sum - the manager does not smooth)
            mgr.ensure_variable_weights(var, 0.4, 0.6, shared::sdd::VarKind::Independent);
            check_counts(&mut mgr, &fam, &format!("order {:?}, after ensure_variable_weights({}, 0.4, 0.6, Independent)", order, var));
            mgr.set_pos_weight(var, 0.25);
            mgr.set_neg_weight(var, 0.75);
            check_counts(&mut mgr, &fam, &format!("order {:?}, after set_pos_weight({}, 0.25) and set_neg_weight({}, 0.75)", order, var, var));
            // a fresh diagram built after the change agrees too
            let l = mgr.literal(var, true);
            let got = mgr.wmc(l);
            assert!((got - 0.25).abs() < 1e-9, "order {:?}: wmc of literal x{} is {} after set_pos_weight(.., 0.25)", order, var, got);
        }
    }
}

#[test] fn w__sdd__gradient_equals_the_truth_table_derivative() {
    for order in orders() {
        let mut mgr = fresh(order);
        let fam = family(&mut mgr);
        for (id, t, name) in fam.iter().step_by(3) {
            let before: Vec<(f64, f64)> = (0..N).map(|v| (mgr.pos_weight()[v as usize], mgr.neg_weight()[v as usize])).collect();
            let grads = shared::diff_sdd::wmc_gradient(&mut mgr, *id);
            for var in 0..N {
                let want = table_gradient_now(&mgr, *t, var);
                let got = grads.get(&var).copied().unwrap_or(0.0);
                assert!((got - want).abs() < 1e-9, "order {:?}: d wmc({}) / d p(x{}) reported {}, the truth-table derivative is {}", order, name, var, got, want);
            }
            let after: Vec<(f64, f64)> = (0..N).map(|v| (mgr.pos_weight()[v as usize], mgr.neg_weight()[v as usize])).collect();
            assert!(before == after, "order {:?}: wmc_gradient changed the weights: {:?} -> {:?}", order, before, after);
            let w = mgr.wmc(*id);
            assert!((w - table_wmc_now(&mgr, *t)).abs() < 1e-9, "order {:?}: wmc({}) after wmc_gradient is {}, expected {}", order, name, w, table_wmc_now(&mgr, *t));
        }
    }
}
