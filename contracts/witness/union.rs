// crate: kolibrie
// BOUNDED stand-in for the union clause of C15: the union of two independently built databases denotes exactly the
// union of their datasets (quads compared lexically incl. quoted-triple terms, graph identities, probability seeds),
// for every pair of databases built from <= 2 of 9 fixed statements in either insertion order (identifiers clash;
// statements 3, 5 and 6 intern the same vocabulary in the same order and then quote DIFFERENT triples, so the two
// sides use the same quoted-triple identifier for different terms).
use kolibrie::sparql_database::SparqlDatabase;
use shared::dataset_index::{GraphId, Quad};
use shared::triple::Triple;
use std::collections::{BTreeMap, BTreeSet};

type Q = (String, String, String, Option<String>);
fn build(stmts: &[usize]) -> SparqlDatabase {
    let mut db = SparqlDatabase::new();
    for s in stmts {
        match s {
            0 => db.add_triple_parts("http://e/a", "http://e/p", "http://e/b"),
            1 => db.add_triple_parts("http://e/c", "http://e/p", "\"lit\""),
            2 => { // a quad in a named graph
                let (s, p, o, g) = { let mut d = db.dictionary.write().unwrap(); (d.encode("http://e/b"), d.encode("http://e/q"), d.encode("http://e/a"), d.encode("http://e/g")) };
                db.dataset_index.insert_quad(&Quad { subject: s, predicate: p, object: o, graph: GraphId::Named(g) });
            }
            3 => { // a quoted triple as subject, with a probability seed
                let (s, p, o, says, who) = { let mut d = db.dictionary.write().unwrap(); (d.encode("http://e/a"), d.encode("http://e/p"), d.encode("http://e/b"), d.encode("http://e/says"), d.encode("http://e/w")) };
                let qt = db.quoted_triple_store.write().unwrap().encode(s, p, o);
                db.dataset_index.insert_quad(&Quad { subject: qt, predicate: says, object: who, graph: GraphId::Default });
                db.probability_seeds.insert(Triple { subject: qt, predicate: says, object: who }, 0.25);
            }
            4 => { // an empty named graph: identity without content
                let g = db.dictionary.write().unwrap().encode("http://e/empty");
                db.dataset_index.create_graph(GraphId::Named(g));
            }
            5 | 6 => { // same vocabulary interned in the same order as statement 3 - but ANOTHER quoted triple (6: a nested one)
                let (a, p, b, says, who) = { let mut d = db.dictionary.write().unwrap(); (d.encode("http://e/a"), d.encode("http://e/p"), d.encode("http://e/b"), d.encode("http://e/says"), d.encode("http://e/w")) };
                let qt = if *s == 5 { db.quoted_triple_store.write().unwrap().encode(b, p, a) } else {
                    let mut store = db.quoted_triple_store.write().unwrap();
                    let inner = store.encode(a, says, b);
                    store.encode(inner, p, a)
                };
                db.dataset_index.insert_quad(&Quad { subject: qt, predicate: says, object: who, graph: GraphId::Default });
            }
            7 => { db.add_tagged_triple("http://e/a", "http://e/p", "http://e/b", 0.5); }    // probability seeds on plain triples: built alone,
            8 => { db.add_tagged_triple("http://e/x", "http://e/y", "http://e/z", 0.75); }   // 7 and 8 get the SAME raw identifiers (0,1,2)
            _ => unreachable!(),
        }
    }
    db
}
fn quads(db: &SparqlDatabase) -> BTreeSet<Q> {
    db.dataset_index.all_quads().into_iter().map(|q| (db.decode_any(q.subject).unwrap_or_default(), db.decode_any(q.predicate).unwrap_or_default(), db.decode_any(q.object).unwrap_or_default(),
        match q.graph { GraphId::Default => None, GraphId::Named(g) => db.decode_any(g) })).collect()
}
fn graphs(db: &SparqlDatabase) -> BTreeSet<String> {
    db.dataset_index.named_graphs().into_iter().filter_map(|g| match g { GraphId::Named(n) => db.decode_any(n), _ => None }).collect()
}
fn seeds(db: &SparqlDatabase) -> BTreeMap<(String, String, String), String> {
    db.probability_seeds.iter().map(|(t, p)| ((db.decode_any(t.subject).unwrap_or_default(), db.decode_any(t.predicate).unwrap_or_default(), db.decode_any(t.object).unwrap_or_default()), format!("{}", p))).collect()
}

#[test] fn w__union__denotes_the_union_of_the_datasets() {
    let mut configs: Vec<Vec<usize>> = vec![vec![]];
    for a in 0..9 { configs.push(vec![a]); for b in 0..9 { if a != b { configs.push(vec![a, b]); } } }
    for x in &configs { for y in &configs {
        let mut a = build(x);
        let b = build(y);
        let u = a.union(&b);
        let want_q: BTreeSet<Q> = quads(&a).union(&quads(&b)).cloned().collect();
        let want_g: BTreeSet<String> = graphs(&a).union(&graphs(&b)).cloned().collect();
        let mut want_s = seeds(&a); want_s.extend(seeds(&b));
        assert!(quads(&u) == want_q, "a=statements{:?} b=statements{:?}: union has quads {:?}, expected {:?}", x, y, quads(&u), want_q);
        assert!(graphs(&u) == want_g, "a=statements{:?} b=statements{:?}: union has graphs {:?}, expected {:?}", x, y, graphs(&u), want_g);
        assert!(seeds(&u) == want_s, "a=statements{:?} b=statements{:?}: union has probability seeds {:?}, expected {:?}", x, y, seeds(&u), want_s);
    }}
}
// alias so that a failed obligation of unit reencode finds its concrete input here
#[test] fn w__reencode_term_id__any() { w__union__denotes_the_union_of_the_datasets(); }

// ---- the text route to quoted-triple identifiers: encode_term_star / decode_any on nested terms -------------------------
#[derive(Clone, Debug, PartialEq, Eq, PartialOrd, Ord)]
enum TT { Iri(&'static str), Lit(&'static str), Q(Box<TT>, Box<TT>, Box<TT>) }
fn written(t: &TT, style: usize) -> String {
    match t {
        TT::Iri(s) => format!("<{}>", s), TT::Lit(s) => format!("\"{}\"", s),
        // (blank-free nesting such as `<<<<<a> ..` is tokenised differently by split_quoted_triple_content; that is text syntax,
        //  not identifier management, and is left out here - see DESIGN.md section 7)
        TT::Q(a, b, c) => match style { 0 => format!("<< {} {} {} >>", written(a, style), written(b, style), written(c, style)), 1 => format!("<< {} {} {}>>", written(a, style), written(b, style), written(c, style)), _ => format!("  <<   {}  {}   {} >> ", written(a, style), written(b, style), written(c, style)) },
    }
}
fn decoded(t: &TT) -> String { match t { TT::Iri(s) | TT::Lit(s) => s.to_string(), TT::Q(a, b, c) => format!("<< {} {} {} >>", decoded(a), decoded(b), decoded(c)) } }
fn structural(t: &TT, db: &SparqlDatabase) -> u32 {
    match t {
        TT::Iri(s) | TT::Lit(s) => db.dictionary.write().unwrap().encode(s),
        TT::Q(a, b, c) => { let (x, y, z) = (structural(a, db), structural(b, db), structural(c, db)); db.quoted_triple_store.write().unwrap().encode(x, y, z) }
    }
}
#[test] fn w__encode_term_star__nested_terms_are_identified_structurally() {
    let leaves = vec![TT::Iri("http://e/a"), TT::Iri("http://e/p"), TT::Lit("two words")];
    let mut level1 = Vec::new();
    for a in &leaves { for b in &leaves { for c in &leaves { level1.push(TT::Q(Box::new(a.clone()), Box::new(b.clone()), Box::new(c.clone()))); } } }
    let mut all: Vec<TT> = leaves.clone();
    all.extend(level1.iter().cloned());
    // depth 2: a quoted triple in each position
    for (i, q1) in level1.iter().enumerate().filter(|(i, _)| i % 4 == 0) { let l = &leaves[i % 3];
        all.push(TT::Q(Box::new(q1.clone()), Box::new(l.clone()), Box::new(l.clone())));
        all.push(TT::Q(Box::new(l.clone()), Box::new(q1.clone()), Box::new(l.clone())));
        all.push(TT::Q(Box::new(l.clone()), Box::new(l.clone()), Box::new(q1.clone())));
        all.push(TT::Q(Box::new(q1.clone()), Box::new(q1.clone()), Box::new(level1[(i + 5) % level1.len()].clone())));
    }
    let db = SparqlDatabase::new();
    let mut seen: BTreeMap<u32, TT> = BTreeMap::new();
    for t in &all {
        let want = structural(t, &db);
        for style in 0..3 {
            let text = written(t, style);
            let id = db.encode_term_star(&text);
            assert!(id == want, "encode_term_star({:?}) = {}, the structural identifier of that term is {}", text, id, want);
        }
        if let Some(other) = seen.get(&want) { assert!(other == t, "distinct terms {:?} and {:?} share identifier {}", decoded(other), decoded(t), want); }
        seen.insert(want, t.clone());
        for (id, u) in &seen {
            let got = db.decode_any(*id);
            assert!(got == Some(decoded(u)), "after {} terms: decode_any({}) = {:?}, the term encoded there is {:?}", seen.len(), id, got, decoded(u));
        }
    }
}
