// crate: kolibrie
// BOUNDED stand-in for C03 over named graphs: a reference implementation of SPARQL Update for basic graph
// patterns with GRAPH <iri> / GRAPH ?g blocks (WHERE evaluated once on the pre-operation dataset by brute-force
// join, template quads with an unbound variable skipped, all deletions before all insertions, counts = quads
// that actually changed, graph identities created by inserts and never removed by deletes) is run side by side
// with execute_sparql_update over every sequence of <= 3 (thorough: 4) operations out of 32, from 2 initial
// datasets; after every step the whole dataset (all graphs), the graph catalog and the reported counts are compared.
use kolibrie::execute_query::execute_sparql_update;
use kolibrie::sparql_database::SparqlDatabase;
use shared::dataset_index::GraphId;
use std::collections::{BTreeMap, BTreeSet};

#[derive(Clone, Debug, PartialEq, Eq, PartialOrd, Ord)]
enum T { I(&'static str), V(&'static str), L(&'static str) }   // IRI, variable, plain literal
#[derive(Clone, Debug)]
enum G { Default, Iri(&'static str), Var(&'static str) }
#[derive(Clone, Debug)]
struct Pat { g: G, s: T, p: T, o: T }
#[derive(Clone, Debug)]
enum Form { InsertData, DeleteData, DeleteWhere, Modify }
#[derive(Clone, Debug)]
struct Op { form: Form, delete: Vec<Pat>, insert: Vec<Pat>, pattern: Vec<Pat>, union_with: Vec<Pat> }   // WHERE { pattern } or WHERE { { pattern } UNION { union_with } }

type Quad = (String, String, String, Option<String>);
#[derive(Clone, Default, Debug, PartialEq)]
struct Model { quads: BTreeSet<Quad>, graphs: BTreeSet<String> }

fn iri(x: &str) -> String { format!("http://e/{}", x) }
fn pat(g: G, s: T, p: T, o: T) -> Pat { Pat { g, s, p, o } }
use T::{I, V, L};

fn ops() -> Vec<Op> {
    let p = || I("p"); let q = || I("q");
    let m = |form, delete, insert, pattern| Op { form, delete, insert, pattern, union_with: vec![] };
    let u = |delete, insert, pattern, union_with| Op { form: Form::Modify, delete, insert, pattern, union_with };
    vec![
        /* 0*/ m(Form::InsertData, vec![], vec![pat(G::Iri("g1"), I("a"), p(), I("b"))], vec![]),
        /* 1*/ m(Form::InsertData, vec![], vec![pat(G::Default, I("a"), p(), I("b")), pat(G::Iri("g2"), I("a"), p(), I("c"))], vec![]),
        /* 2*/ m(Form::DeleteData, vec![pat(G::Iri("g1"), I("a"), p(), I("b"))], vec![], vec![]),
        /* 3*/ m(Form::DeleteWhere, vec![], vec![], vec![pat(G::Iri("g1"), V("s"), p(), V("o"))]),
        /* 4*/ m(Form::DeleteWhere, vec![], vec![], vec![pat(G::Var("g"), V("s"), p(), V("o"))]),
        /* 5*/ m(Form::Modify, vec![], vec![pat(G::Var("g"), V("s"), q(), V("o"))], vec![pat(G::Var("g"), V("s"), p(), V("o"))]),
        /* 6*/ m(Form::Modify, vec![pat(G::Iri("g1"), V("s"), p(), V("o"))], vec![pat(G::Default, V("s"), p(), V("o"))], vec![pat(G::Iri("g1"), V("s"), p(), V("o"))]),
        /* 7*/ m(Form::Modify, vec![], vec![pat(G::Iri("g2"), V("s"), p(), V("o"))], vec![pat(G::Default, V("s"), p(), V("o"))]),
        /* 8*/ m(Form::Modify, vec![], vec![pat(G::Default, V("s"), q(), V("o")), pat(G::Default, V("s"), q(), V("u"))], vec![pat(G::Default, V("s"), p(), V("o"))]),
        /* 9*/ m(Form::Modify, vec![pat(G::Default, V("s"), p(), V("o"))], vec![pat(G::Default, V("o"), p(), V("s"))], vec![pat(G::Default, V("s"), p(), V("o"))]),
        /*10*/ m(Form::Modify, vec![], vec![pat(G::Default, V("s"), p(), V("z"))], vec![pat(G::Default, V("s"), p(), V("o")), pat(G::Default, V("o"), p(), V("z"))]),
        /*11*/ m(Form::DeleteWhere, vec![], vec![], vec![pat(G::Default, V("s"), p(), V("o")), pat(G::Iri("g1"), V("s"), p(), V("o"))]),
        /*12*/ m(Form::Modify, vec![], vec![pat(G::Iri("g1"), V("s"), p(), V("o"))], vec![pat(G::Iri("g2"), V("s"), p(), V("o"))]),
        /*13*/ m(Form::Modify, vec![pat(G::Var("g"), V("s"), p(), V("o"))], vec![], vec![pat(G::Var("g"), V("s"), p(), V("o")), pat(G::Default, V("s"), p(), V("o"))]),
        /*14*/ m(Form::Modify, vec![pat(G::Default, V("s"), p(), V("o"))], vec![pat(G::Iri("g3"), V("s"), p(), V("o"))], vec![pat(G::Default, V("s"), p(), V("o"))]),
        /*15*/ m(Form::DeleteData, vec![pat(G::Default, I("a"), p(), I("b")), pat(G::Iri("g2"), I("a"), p(), I("c"))], vec![], vec![]),
        // UNION branches that bind different variables: ?g stays unbound in the solutions of the second branch,
        // a template quad under GRAPH ?g is skipped for exactly those solutions
        /*16*/ u(vec![], vec![pat(G::Var("g"), V("s"), q(), V("o"))], vec![pat(G::Var("g"), V("s"), p(), V("o"))], vec![pat(G::Default, V("s"), p(), V("o"))]),
        /*17*/ u(vec![pat(G::Var("g"), V("s"), p(), V("o"))], vec![], vec![pat(G::Var("g"), V("s"), p(), V("o"))], vec![pat(G::Default, V("s"), p(), V("o"))]),
        /*18*/ u(vec![pat(G::Var("g"), V("s"), p(), V("o"))], vec![pat(G::Var("g"), V("s"), q(), V("o")), pat(G::Default, V("s"), q(), V("o"))], vec![pat(G::Var("g"), V("s"), p(), V("o"))], vec![pat(G::Default, V("s"), p(), V("o"))]),
        // literals: a variable bound to a literal makes a template quad illegal where a literal cannot stand (subject / predicate)
        /*20*/ m(Form::InsertData, vec![], vec![pat(G::Default, I("a"), p(), L("lit")), pat(G::Iri("g1"), I("c"), p(), L("lit2")), pat(G::Default, I("a"), p(), L("lit"))], vec![]),
        /*21*/ m(Form::Modify, vec![], vec![pat(G::Default, V("o"), q(), V("s"))], vec![pat(G::Default, V("s"), p(), V("o"))]),
        /*22*/ m(Form::Modify, vec![], vec![pat(G::Default, V("s"), V("o"), V("s")), pat(G::Default, V("s"), q(), V("o"))], vec![pat(G::Default, V("s"), p(), V("o"))]),
        /*23*/ m(Form::DeleteData, vec![pat(G::Default, I("a"), p(), I("b")), pat(G::Default, I("a"), p(), I("b")), pat(G::Default, I("a"), p(), L("lit"))], vec![], vec![]),
        /*24*/ m(Form::Modify, vec![pat(G::Default, V("s"), p(), V("o"))], vec![pat(G::Var("o"), V("s"), p(), V("o"))], vec![pat(G::Default, V("s"), p(), V("o"))]),
        // DELETE WHERE with a repeated variable and with a two-pattern join (every pattern is also a delete template)
        /*25*/ m(Form::InsertData, vec![], vec![pat(G::Default, I("a"), p(), I("a")), pat(G::Iri("g1"), I("b"), p(), I("b")), pat(G::Default, I("b"), p(), I("a"))], vec![]),
        /*26*/ m(Form::DeleteWhere, vec![], vec![], vec![pat(G::Default, V("s"), p(), V("s"))]),
        /*27*/ m(Form::DeleteWhere, vec![], vec![], vec![pat(G::Default, V("s"), p(), V("o")), pat(G::Default, V("o"), p(), V("z"))]),
        /*28*/ m(Form::DeleteWhere, vec![], vec![], vec![pat(G::Var("g"), V("s"), p(), V("s")), pat(G::Default, V("s"), p(), V("o"))]),
        // ground DELETE WHERE: the block is a CONJUNCTION - nothing is deleted unless every listed quad is present
        /*29*/ m(Form::DeleteWhere, vec![], vec![], vec![pat(G::Default, I("a"), p(), I("b")), pat(G::Default, I("a"), p(), I("zz"))]),
        /*30*/ m(Form::DeleteWhere, vec![], vec![], vec![pat(G::Iri("g1"), I("a"), p(), I("b")), pat(G::Default, I("a"), p(), I("b"))]),
        /*31*/ m(Form::DeleteWhere, vec![], vec![], vec![pat(G::Default, I("a"), p(), I("b")), pat(G::Iri("g2"), I("a"), p(), I("c"))]),
        /*19*/ u(vec![], vec![pat(G::Iri("g3"), V("s"), p(), V("o")), pat(G::Iri("g3"), V("s"), q(), V("z"))], vec![pat(G::Default, V("s"), p(), V("o"))], vec![pat(G::Iri("g1"), V("s"), p(), V("z"))]),
    ]
}

fn term_text(t: &T) -> String { match t { I(x) => format!("<{}>", iri(x)), V(v) => format!("?{}", v), L(x) => format!("\"{}\"", x) } }
/// how the store shows a term: IRIs and literal CONTENT (the code base keeps plain literals without quotes)
fn stored(t: &T) -> Option<String> { match t { I(x) => Some(iri(x)), L(x) => Some(x.to_string()), V(_) => None } }
fn is_iri_text(s: &str) -> bool { s.starts_with("http://") }
fn block(ps: &[Pat]) -> String {
    let mut s = String::new();
    for p in ps {
        let triple = format!("{} {} {} .", term_text(&p.s), term_text(&p.p), term_text(&p.o));
        match &p.g { G::Default => s.push_str(&format!(" {}", triple)), G::Iri(g) => s.push_str(&format!(" GRAPH <{}> {{ {} }}", iri(g), triple)), G::Var(v) => s.push_str(&format!(" GRAPH ?{} {{ {} }}", v, triple)) }
    }
    s
}
fn text(op: &Op) -> String {
    match op.form {
        Form::InsertData => format!("INSERT DATA {{{} }}", block(&op.insert)),
        Form::DeleteData => format!("DELETE DATA {{{} }}", block(&op.delete)),
        Form::DeleteWhere => format!("DELETE WHERE {{{} }}", block(&op.pattern)),
        Form::Modify => {
            let mut s = String::new();
            if !op.delete.is_empty() { s.push_str(&format!("DELETE {{{} }} ", block(&op.delete))); }
            if !op.insert.is_empty() { s.push_str(&format!("INSERT {{{} }} ", block(&op.insert))); }
            if op.union_with.is_empty() { format!("{}WHERE {{{} }}", s, block(&op.pattern)) } else { format!("{}WHERE {{ {{{} }} UNION {{{} }} }}", s, block(&op.pattern), block(&op.union_with)) }
        }
    }
}

type Binding = BTreeMap<&'static str, String>;
fn unify(t: &T, value: &str, b: &mut Binding) -> bool {
    match t { I(x) => iri(x) == value, L(x) => *x == value, V(v) => match b.get(v) { Some(x) => x == value, None => { b.insert(v, value.to_string()); true } } }
}
fn solutions(m: &Model, pattern: &[Pat]) -> Vec<Binding> {
    let mut sols: Vec<Binding> = vec![Binding::new()];
    for p in pattern {
        let mut next = Vec::new();
        for b in &sols { for quad in &m.quads {
            let mut nb = b.clone();
            let graph_ok = match (&p.g, &quad.3) {
                (G::Default, None) => true,
                (G::Iri(g), Some(x)) => &iri(g) == x,
                (G::Var(v), Some(x)) => match nb.get(v) { Some(y) => y == x, None => { nb.insert(v, x.clone()); true } },
                _ => false,
            };
            if graph_ok && unify(&p.s, &quad.0, &mut nb) && unify(&p.p, &quad.1, &mut nb) && unify(&p.o, &quad.2, &mut nb) { next.push(nb); }
        }}
        sols = next;
    }
    sols
}
fn instantiate(tpl: &[Pat], sols: &[Binding]) -> BTreeSet<Quad> {
    let mut out = BTreeSet::new();
    let val = |t: &T, b: &Binding| -> Option<String> { match t { V(v) => b.get(v).cloned(), other => stored(other) } };
    for b in sols { for p in tpl {
        let g = match &p.g { G::Default => Some(None), G::Iri(g) => Some(Some(iri(g))), G::Var(v) => b.get(v).cloned().map(Some) };
        if let (Some(g), Some(s), Some(pp), Some(o)) = (g, val(&p.s, b), val(&p.p, b), val(&p.o, b)) {
            // RDF legality per instantiated quad: a literal cannot be a subject, predicate or graph name - that quad is skipped
            let legal = is_iri_text(&s) && is_iri_text(&pp) && g.as_ref().map_or(true, |x| is_iri_text(x));
            if legal { out.insert((s, pp, o, g)); }
        }
    }}
    out
}
/// SPARQL Update semantics: returns (inserted, deleted)
fn apply(m: &mut Model, op: &Op) -> (usize, usize) {
    let one = vec![Binding::new()];
    let (d, i) = match op.form {
        Form::InsertData => (BTreeSet::new(), instantiate(&op.insert, &one)),
        Form::DeleteData => (instantiate(&op.delete, &one), BTreeSet::new()),
        Form::DeleteWhere => { let s = solutions(m, &op.pattern); (instantiate(&op.pattern, &s), BTreeSet::new()) }
        Form::Modify => {
            let mut s = solutions(m, &op.pattern);
            if !op.union_with.is_empty() { s.extend(solutions(m, &op.union_with)); }
            (instantiate(&op.delete, &s), instantiate(&op.insert, &s))
        }
    };
    let mut deleted = 0; let mut inserted = 0;
    for x in &d { if m.quads.remove(x) { deleted += 1; } }
    for x in &i { if let Some(g) = &x.3 { m.graphs.insert(g.clone()); } if m.quads.insert(x.clone()) { inserted += 1; } }
    (inserted, deleted)
}

fn observe(db: &SparqlDatabase) -> Model {
    let quads = db.dataset_index.all_quads().into_iter().map(|q| (
        db.decode_any(q.subject).unwrap_or_default(), db.decode_any(q.predicate).unwrap_or_default(), db.decode_any(q.object).unwrap_or_default(),
        match q.graph { GraphId::Default => None, GraphId::Named(g) => db.decode_any(g) })).collect();
    let graphs = db.dataset_index.named_graphs().into_iter().filter_map(|g| match g { GraphId::Named(n) => db.decode_any(n), _ => None }).collect();
    Model { quads, graphs }
}
fn initial(kind: usize) -> SparqlDatabase {
    let mut db = SparqlDatabase::new();
    if kind == 1 {
        execute_sparql_update("INSERT DATA { <http://e/a> <http://e/p> <http://e/b> . <http://e/b> <http://e/p> <http://e/c> . GRAPH <http://e/g1> { <http://e/a> <http://e/p> <http://e/b> . <http://e/c> <http://e/p> <http://e/a> . } GRAPH <http://e/g2> { <http://e/a> <http://e/p> <http://e/c> . } }", &mut db).expect("seed");
    }
    db
}

/// requests that must be REJECTED and leave the dataset unchanged (operation indexes >= 100)
const REJECTED: [&str; 5] = [
    "INSERT DATA { ?s <http://e/p> <http://e/b> }",
    "DELETE DATA { _:b <http://e/p> <http://e/b> }",
    "DELETE DATA { <http://e/a> <http://e/p> ?o }",
    "DELETE { _:b <http://e/p> ?o } WHERE { ?s <http://e/p> ?o }",
    "INSERT { <http://e/a> <http://e/p> <http://e/b> } WHERE { ?s <http://e/p> ",
];
fn run(kind: usize, seq: &[usize], all: &[Op]) {
    let mut db = initial(kind);
    let mut model = observe(&db);
    for (k, &oi) in seq.iter().enumerate() {
        if oi >= 100 {
            let t = REJECTED[oi - 100];
            let ctx = format!("initial dataset #{}, operations {:?}, step {} = {}", kind, seq, k + 1, t);
            match std::panic::catch_unwind(std::panic::AssertUnwindSafe(|| execute_sparql_update(t, &mut db))) {
                Err(_) => panic!("{}: execute_sparql_update panicked", ctx),
                Ok(Ok(_)) => panic!("{}: the request must be rejected but was accepted", ctx),
                Ok(Err(_)) => {}
            }
            let got = observe(&db);
            assert!(got == model, "{}: a REJECTED update changed the dataset: {:?} -> {:?}", ctx, model, got);
            continue;
        }
        let op = &all[oi];
        let t = text(op);
        let want = apply(&mut model, op);
        let ctx = format!("initial dataset #{}, operations {:?}, step {} = {}", kind, seq, k + 1, t);
        match std::panic::catch_unwind(std::panic::AssertUnwindSafe(|| execute_sparql_update(&t, &mut db))) {
            Err(_) => panic!("{}: execute_sparql_update panicked", ctx),
            Ok(Err(e)) => panic!("{}: a well-formed update was rejected: {}", ctx, e),
            Ok(Ok(summary)) => assert!((summary.inserted_quads, summary.deleted_quads) == want, "{}: reported inserted={} deleted={}, the quads that actually changed: inserted={} deleted={}", ctx, summary.inserted_quads, summary.deleted_quads, want.0, want.1),
        }
        let got = observe(&db);
        assert!(got.quads == model.quads, "{}: dataset is {:?}, SPARQL Update semantics gives {:?}", ctx, got.quads, model.quads);
        assert!(got.graphs == model.graphs, "{}: named-graph identities are {:?}, expected {:?} (created by inserts, not removed by deletes)", ctx, got.graphs, model.graphs);
    }
}

#[test] fn w__update_graph_sequences__agree_with_sparql_update_semantics() {
    let all = ops();
    let thorough = std::env::var("VERIF_TIER").map_or(false, |v| v == "thorough");
    // rejected requests between accepted ones
    for kind in 0..2 { for a in 0..all.len() { for r in 0..REJECTED.len() { for b in (0..all.len()).step_by(3) { run(kind, &[a, 100 + r, b], &all); run(kind, &[100 + r, a], &all); } } } }
    for kind in 0..2 {
        for a in 0..all.len() {
            run(kind, &[a], &all);
            for b in 0..all.len() {
                run(kind, &[a, b], &all);
                for c in 0..all.len() {
                    run(kind, &[a, b, c], &all);
                    if thorough { for d in 0..all.len() { run(kind, &[a, b, c, d], &all); } }
                }
            }
        }
    }
}
// alias so that a failed obligation of instantiate_quad (unit execute_query) finds its concrete input here
#[test] fn w__instantiate_quad__any() { w__update_graph_sequences__agree_with_sparql_update_semantics(); }
