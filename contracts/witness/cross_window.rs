// crate: datalog
// BOUNDED stand-in for C12 (incremental_sds_plus / naive_sds_plus are HashMap + closure code over the semi-naive
// engine: outside both verifiers).  Universe: two windows (widths 2 and 4) and one output component, three rule
// sets (a rule concluding INTO a window component, a cross-window join, a chain), every stream history over 5 ticks
// in which each tick adds the triple (x p y) to neither, one or both windows (4^5 = 1024 histories per rule set),
// evaluated at every tick.  At every evaluation time the incrementally maintained materialisation holds, per
// component, exactly the facts of from-scratch reasoning, and the expiry kept for each fact is the first future
// time at which from-scratch reasoning (with no further arrivals) no longer derives it.
use std::collections::{BTreeMap, BTreeSet, HashMap};
use std::sync::{Arc, RwLock};

use datalog::cross_window_sds::{all_component_iris, sds_with_expiry_to_external, strip_window_prefix, Sds, WindowData, WindowedTriple};
use datalog::parser_n3_logic::parse_n3_rules_for_sds;
use datalog::reasoning::materialisation::cross_window_incremental::{incremental_sds_plus, SdsWithExpiry};
use datalog::reasoning::materialisation::cross_window_naive::naive_sds_plus;
use datalog::reasoning::Reasoner;
use shared::dictionary::Dictionary;
use shared::triple::Triple;

const A: &str = "http://wa/";
const B: &str = "http://wb/";
const OUT: &str = "http://out/";
const ALPHA_A: u64 = 2;
const ALPHA_B: u64 = 4;
fn ticks() -> u64 { if std::env::var("VERIF_TIER").map_or(false, |v| v == "thorough") { 6 } else { 5 } }

const RULESETS: [(&str, &str); 3] = [
    ("into-window", "@prefix wa: <http://wa/> .\n@prefix wb: <http://wb/> .\n@prefix wo: <http://out/> .\n{ ?s wb:p ?o } => { ?s wa:p ?o }\n{ ?s wa:p ?o } => { ?s wo:q ?o }\n"),
    ("join", "@prefix wa: <http://wa/> .\n@prefix wb: <http://wb/> .\n@prefix wo: <http://out/> .\n{ ?s wa:p ?o . ?s wb:p ?o } => { ?s wo:both ?o }\n{ ?s wa:p ?o } => { ?s wo:q ?o }\n"),
    ("chain", "@prefix wa: <http://wa/> .\n@prefix wb: <http://wb/> .\n@prefix wo: <http://out/> .\n{ ?s wa:p ?o } => { ?s wo:q ?o }\n{ ?s wo:q ?o } => { ?s wo:r ?o }\n{ ?s wb:p ?o } => { ?s wo:r ?o }\n"),
];

fn wt(t: u64) -> WindowedTriple { WindowedTriple { subject: "x".into(), predicate: "p".into(), object: "y".into(), event_time: t } }

/// the SDS the windows present at `now` for a history `h` (h[t] bit 0: arrival in A at t, bit 1: arrival in B at t);
/// `horizon`: arrivals after this time are ignored (used by the expiry oracle: "no further arrivals")
fn sds_at(h: &[u8], now: u64, horizon: u64) -> Sds {
    let mut sds = Sds::new();
    let mut a = Vec::new();
    let mut b = Vec::new();
    for t in 0..=now.min(horizon) {
        if (t as usize) < h.len() {
            if h[t as usize] & 1 != 0 && t + ALPHA_A > now { a.push(wt(t)); }
            if h[t as usize] & 2 != 0 && t + ALPHA_B > now { b.push(wt(t)); }
        }
    }
    sds.windows.insert(A.to_string(), WindowData { alpha: ALPHA_A, triples: a });
    sds.windows.insert(B.to_string(), WindowData { alpha: ALPHA_B, triples: b });
    sds.output_iris.insert(OUT.to_string());
    sds
}

type View = BTreeMap<String, BTreeSet<(String, String, String)>>;
fn decode_view(ext: &HashMap<String, Vec<Triple>>, dict: &Arc<RwLock<Dictionary>>) -> View {
    let d = dict.read().unwrap();
    let mut v = View::new();
    for (comp, triples) in ext {
        let set: BTreeSet<_> = triples.iter().map(|t| (d.decode(t.subject).unwrap_or("?").to_string(), d.decode(t.predicate).unwrap_or("?").to_string(), d.decode(t.object).unwrap_or("?").to_string())).collect();
        if !set.is_empty() { v.insert(comp.clone(), set); }
    }
    v
}

fn setup(rules_n3: &str) -> (Arc<RwLock<Dictionary>>, Vec<shared::rule::Rule>) {
    let dict = Arc::new(RwLock::new(Dictionary::new()));
    let mut reasoner = Reasoner::new();
    reasoner.dictionary = Arc::clone(&dict);
    let widths: HashMap<String, u64> = [(A.to_string(), ALPHA_A), (B.to_string(), ALPHA_B)].into();
    let (rules, _ctx) = parse_n3_rules_for_sds(rules_n3, &mut reasoner, widths).expect("rules parse");
    (dict, rules)
}

fn histories() -> Vec<Vec<u8>> {
    let mut v: Vec<Vec<u8>> = vec![vec![]];
    for _ in 0..ticks() { let mut n = Vec::new(); for h in &v { for x in 0..4u8 { let mut g = h.clone(); g.push(x); n.push(g); } } v = n; }
    v
}

#[test] fn w__incremental_sds_plus__equals_from_scratch_at_every_evaluation_time() {
    for (name, n3) in RULESETS {
        let (dict, rules) = setup(n3);
        for h in histories() {
            let mut state: SdsWithExpiry = HashMap::new();
            for now in 0..ticks() + ALPHA_B {
                let sds = sds_at(&h, now, u64::MAX);
                state = incremental_sds_plus(&rules, &sds, &state, &dict, now);
                let comps = all_component_iris(&sds);
                let incr = decode_view(&sds_with_expiry_to_external(&state, &dict, &comps), &dict);
                let naive = decode_view(&naive_sds_plus(&rules, &sds, &dict, now), &dict);
                assert!(incr == naive, "rules {}: history {:?} (bit0 = arrival in window A width {}, bit1 = window B width {}), evaluation time {}: incremental materialisation {:?} differs from from-scratch reasoning {:?}", name, h, ALPHA_A, ALPHA_B, now, incr, naive);
            }
        }
    }
}

#[test] fn w__incremental_sds_plus__keeps_the_latest_fully_supported_expiry() {
    for (name, n3) in RULESETS {
        let (dict, rules) = setup(n3);
        for h in histories().into_iter().step_by(3) {
            let mut state: SdsWithExpiry = HashMap::new();
            for now in 0..ticks() + ALPHA_B {
                let sds = sds_at(&h, now, u64::MAX);
                state = incremental_sds_plus(&rules, &sds, &state, &dict, now);
                // oracle: first future time at which from-scratch reasoning without further arrivals no longer has the fact
                let comps = all_component_iris(&sds);
                for (comp, fact_map) in &state {
                    for (annotated, kept) in fact_map {
                        let pred_str = match dict.read().unwrap().decode(annotated.predicate) { Some(s) => s.to_string(), None => continue };
                        let Some((_m, local)) = strip_window_prefix(&pred_str, &comps) else { continue };
                        let local = local.to_string();
                        let stripped_pred = dict.write().unwrap().encode(&local);
                        let t = Triple { subject: annotated.subject, predicate: stripped_pred, object: annotated.object };
                        let mut want = None;
                        for future in now + 1..=now + ALPHA_B + 1 {
                            let fs = sds_at(&h, future, now);
                            let nv = naive_sds_plus(&rules, &fs, &dict, future);
                            let present = nv.get(comp).map_or(false, |v| v.contains(&t));
                            if !present { want = Some(future); break; }
                        }
                        let d = dict.read().unwrap();
                        let shown = (d.decode(t.subject).unwrap_or("?").to_string(), local.clone(), d.decode(t.object).unwrap_or("?").to_string());
                        drop(d);
                        assert!(Some(*kept) == want, "rules {}: history {:?}, evaluation time {}: expiry kept for {:?} in <{}> is {}, the latest time until which some derivation stays fully supported is {:?}", name, h, now, shown, comp, kept, want);
                    }
                }
            }
        }
    }
}

// ---- generated rule sets: every subset of <= 4 rules of a pool of 14, in pool order and reversed ------------------------
// (the ORDER of the rules decides in which round a fact's expiry is improved and whether its consumers see the
//  improvement: e.g.  f => h ; wa:p => f ; wb:p => m ; m => f   improves f after h was derived from the short-lived f)
fn rule_pool() -> Vec<(Vec<&'static str>, &'static str)> {
    let mut v: Vec<(Vec<&'static str>, &'static str)> = Vec::new();
    for s in ["wa:p", "wb:p"] { for t in ["wo:f", "wo:m", "wo:h"] { v.push((vec![s], t)); } }
    for (s, t) in [("wo:f", "wo:m"), ("wo:f", "wo:h"), ("wo:m", "wo:f"), ("wo:m", "wo:h")] { v.push((vec![s], t)); }
    v.push((vec!["wa:p", "wb:p"], "wo:f"));
    v.push((vec!["wa:p", "wb:p"], "wo:h"));
    v.push((vec!["wo:f", "wo:m"], "wo:h"));
    v.push((vec!["wa:p", "wo:m"], "wo:h"));
    v
}
fn n3_of(rules: &[(Vec<&'static str>, &'static str)]) -> String {
    let mut s = String::from("@prefix wa: <http://wa/> .\n@prefix wb: <http://wb/> .\n@prefix wo: <http://out/> .\n");
    for (prem, head) in rules {
        let body: Vec<String> = prem.iter().map(|p| format!("?s {} ?o", p)).collect();
        s.push_str(&format!("{{ {} }} => {{ ?s {} ?o }}\n", body.join(" . "), head));
    }
    s
}
fn short_histories(ticks: u64) -> Vec<Vec<u8>> {
    let mut v: Vec<Vec<u8>> = vec![vec![]];
    for _ in 0..ticks { let mut n = Vec::new(); for h in &v { for x in 0..4u8 { let mut g = h.clone(); g.push(x); n.push(g); } } v = n; }
    v
}

#[test] fn w__incremental_sds_plus__generated_rule_sets_equal_from_scratch() {
    let pool = rule_pool();
    let thorough = std::env::var("VERIF_TIER").map_or(false, |v| v == "thorough");
    let hist_ticks = if thorough { 4 } else { 3 };
    let hs = short_histories(hist_ticks);
    let n = pool.len();
    let mut programs: Vec<Vec<usize>> = Vec::new();
    for a in 0..n { programs.push(vec![a]); for b in a + 1..n { programs.push(vec![a, b]); for c in b + 1..n { programs.push(vec![a, b, c]); for d in c + 1..n { programs.push(vec![a, b, c, d]); } } } }
    let mut evaluations = 0u64;
    for idx in &programs { for reversed in [false, true] {
        let mut rules: Vec<_> = idx.iter().map(|i| pool[*i].clone()).collect();
        if reversed { if rules.len() == 1 { continue; } rules.reverse(); }
        let text = n3_of(&rules);
        let (dict, parsed) = setup(&text);
        // sets of 4 rules: histories of 2 ticks in the quick tier (16 histories), the full length in the thorough tier
        let short = !thorough && idx.len() == 4;
        for h in hs.iter().filter(|h| !short || h[2..].iter().all(|x| *x == 0)) {
            let mut state: SdsWithExpiry = HashMap::new();
            for now in 0..hist_ticks + ALPHA_B {
                let sds = sds_at(h, now, u64::MAX);
                state = incremental_sds_plus(&parsed, &sds, &state, &dict, now);
                let comps = all_component_iris(&sds);
                let incr = decode_view(&sds_with_expiry_to_external(&state, &dict, &comps), &dict);
                let naive = decode_view(&naive_sds_plus(&parsed, &sds, &dict, now), &dict);
                evaluations += 1;
                assert!(incr == naive, "rules (in this order) {:?}: history {:?} (bit0 = arrival in window A width {}, bit1 = window B width {}), evaluation time {}: incremental materialisation {:?} differs from from-scratch reasoning {:?}", rules, h, ALPHA_A, ALPHA_B, now, incr, naive);
            }
        }
    }}
    assert!(evaluations > 100_000);
}

// ---- the code's own expiry filter and window IRIs that are prefixes of one another ---------------------------------
// Windows <http://w/> (width 2) and <http://w/b/> (width 4): the second IRI extends the first, so annotating and stripping the
// window prefix must pick the right one.  The SDS handed over holds EVERY arrival up to `now` (expired ones too): the
// translation's own filter (alive iff event_time + alpha > now) must agree with the window semantics computed here.
const A2: &str = "http://w/";
const B2: &str = "http://w/b/";
fn sds2_at(h: &[u8], now: u64, only_alive: bool) -> Sds {
    let mut sds = Sds::new();
    let mut a = Vec::new();
    let mut b = Vec::new();
    for t in 0..=now {
        if (t as usize) < h.len() {
            if h[t as usize] & 1 != 0 && (!only_alive || t + ALPHA_A > now) { a.push(wt(t)); }
            if h[t as usize] & 2 != 0 && (!only_alive || t + ALPHA_B > now) { b.push(wt(t)); }
        }
    }
    sds.windows.insert(A2.to_string(), WindowData { alpha: ALPHA_A, triples: a });
    sds.windows.insert(B2.to_string(), WindowData { alpha: ALPHA_B, triples: b });
    sds.output_iris.insert(OUT.to_string());
    sds
}
const RULESETS2: [(&str, &str); 2] = [
    ("copy-both", "@prefix wa: <http://w/> .\n@prefix wb: <http://w/b/> .\n@prefix wo: <http://out/> .\n{ ?s wa:p ?o } => { ?s wo:fromA ?o }\n{ ?s wb:p ?o } => { ?s wo:fromB ?o }\n{ ?s wa:p ?o . ?s wb:p ?o } => { ?s wo:both ?o }\n"),
    ("into-the-longer-window", "@prefix wa: <http://w/> .\n@prefix wb: <http://w/b/> .\n@prefix wo: <http://out/> .\n{ ?s wa:p ?o } => { ?s wb:q ?o }\n{ ?s wb:q ?o } => { ?s wo:r ?o }\n{ ?s wb:p ?o } => { ?s wa:q ?o }\n"),
];
#[test] fn w__sds__expiry_filter_and_prefix_window_iris() {
    let widths: HashMap<String, u64> = [(A2.to_string(), ALPHA_A), (B2.to_string(), ALPHA_B)].into();
    for (name, n3) in RULESETS2 {
        let dict = Arc::new(RwLock::new(Dictionary::new()));
        let mut reasoner = Reasoner::new();
        reasoner.dictionary = Arc::clone(&dict);
        let (rules, _ctx) = parse_n3_rules_for_sds(n3, &mut reasoner, widths.clone()).expect("rules parse");
        for h in short_histories(4) {
            let mut state: SdsWithExpiry = HashMap::new();
            for now in 0..4 + ALPHA_B + 1 {
                let all = sds2_at(&h, now, false);
                let alive = sds2_at(&h, now, true);
                let comps = all_component_iris(&all);
                let want = decode_view(&naive_sds_plus(&rules, &alive, &dict, now), &dict);
                let naive_all = decode_view(&naive_sds_plus(&rules, &all, &dict, now), &dict);
                if name == "copy-both" {
                    // independent oracle (no code of the crate involved): which window holds an alive (x p y) at `now`
                    let alive_a = (0..=now).any(|t| (t as usize) < h.len() && h[t as usize] & 1 != 0 && t + ALPHA_A > now);
                    let alive_b = (0..=now).any(|t| (t as usize) < h.len() && h[t as usize] & 2 != 0 && t + ALPHA_B > now);
                    let mut expected = View::new();
                    let f = |p: &str| -> BTreeSet<(String, String, String)> { [("x".to_string(), p.to_string(), "y".to_string())].into() };
                    if alive_a { expected.insert(A2.to_string(), f("p")); }
                    if alive_b { expected.insert(B2.to_string(), f("p")); }
                    let mut out = BTreeSet::new();
                    if alive_a { out.extend(f("fromA")); }
                    if alive_b { out.extend(f("fromB")); }
                    if alive_a && alive_b { out.extend(f("both")); }
                    if !out.is_empty() { expected.insert(OUT.to_string(), out); }
                    assert!(want == expected, "rules {}: history {:?} (bit0 = arrival in <{}> width {}, bit1 = arrival in <{}> width {}), evaluation time {}: from-scratch reasoning gives {:?}; by the window semantics (a triple that arrived at t is alive while t + width > now) it must give {:?}", name, h, A2, ALPHA_A, B2, ALPHA_B, now, want, expected);
                }
                assert!(naive_all == want, "rules {}: history {:?}, evaluation time {}: from-scratch reasoning over the windows' full arrival lists gives {:?}, over their alive content (event_time + width > now) {:?}", name, h, now, naive_all, want);
                state = incremental_sds_plus(&rules, &all, &state, &dict, now);
                let incr = decode_view(&sds_with_expiry_to_external(&state, &dict, &comps), &dict);
                assert!(incr == want, "rules {}: history {:?}, evaluation time {}: incremental materialisation {:?} differs from from-scratch reasoning over the alive window content {:?}", name, h, now, incr, want);
                // every reported fact sits in a component that exists
                for comp in incr.keys() { assert!(comps.contains(comp), "rules {}: fact reported under unknown component {:?}", name, comp); }
            }
        }
    }
}

// ---- a static (background) graph: rules joining it with windows, and rules concluding INTO its component ---------------
const KB: &str = "http://kb/";
fn sds_static_at(h: &[u8], now: u64) -> Sds {
    let mut sds = sds_at(h, now, u64::MAX);
    sds.static_graphs.insert(KB.to_string(), vec![("x".to_string(), "k".to_string(), "y".to_string()), ("z".to_string(), "k".to_string(), "y".to_string())]);
    sds
}
const RULESETS_STATIC: [(&str, &str); 3] = [
    ("enrich-the-static-component", "@prefix wa: <http://wa/> .\n@prefix wb: <http://wb/> .\n@prefix kb: <http://kb/> .\n@prefix wo: <http://out/> .\n{ ?s wa:p ?o . ?s kb:k ?o } => { ?s kb:seen ?o }\n{ ?s kb:seen ?o } => { ?s wo:q ?o }\n{ ?s kb:k ?o } => { ?s wo:background ?o }\n"),
    ("static-into-window", "@prefix wa: <http://wa/> .\n@prefix wb: <http://wb/> .\n@prefix kb: <http://kb/> .\n@prefix wo: <http://out/> .\n{ ?s kb:k ?o } => { ?s wa:q ?o }\n{ ?s wa:q ?o . ?s wb:p ?o } => { ?s wo:both ?o }\n{ ?s wb:p ?o } => { ?s kb:late ?o }\n"),
    ("chain-through-static", "@prefix wa: <http://wa/> .\n@prefix wb: <http://wb/> .\n@prefix kb: <http://kb/> .\n@prefix wo: <http://out/> .\n{ ?s wb:p ?o } => { ?s kb:a ?o }\n{ ?s kb:a ?o . ?s wa:p ?o } => { ?s kb:b ?o }\n{ ?s kb:b ?o } => { ?s wo:r ?o }\n"),
];
#[test] fn w__incremental_sds_plus__static_graphs_equal_from_scratch_and_expiries_lie_in_the_future() {
    let widths: HashMap<String, u64> = [(A.to_string(), ALPHA_A), (B.to_string(), ALPHA_B)].into();
    for (name, n3) in RULESETS_STATIC {
        let dict = Arc::new(RwLock::new(Dictionary::new()));
        let mut reasoner = Reasoner::new();
        reasoner.dictionary = Arc::clone(&dict);
        let (rules, _ctx) = parse_n3_rules_for_sds(n3, &mut reasoner, widths.clone()).expect("rules parse");
        for h in short_histories(4) {
            let mut state: SdsWithExpiry = HashMap::new();
            for now in 0..4 + ALPHA_B + 1 {
                let sds = sds_static_at(&h, now);
                state = incremental_sds_plus(&rules, &sds, &state, &dict, now);
                let comps = all_component_iris(&sds);
                let incr = decode_view(&sds_with_expiry_to_external(&state, &dict, &comps), &dict);
                let naive = decode_view(&naive_sds_plus(&rules, &sds, &dict, now), &dict);
                assert!(incr == naive, "rules {} (static graph <{}> with x k y, z k y): history {:?}, evaluation time {}: incremental materialisation {:?} differs from from-scratch reasoning {:?}", name, KB, h, now, incr, naive);
                for (comp, facts) in &state { for (_t, expiry) in facts {
                    assert!(*expiry > now, "rules {}: history {:?}, evaluation time {}: component <{}> keeps a fact whose expiry {} is not in the future", name, h, now, comp, expiry);
                }}
            }
        }
    }
}
