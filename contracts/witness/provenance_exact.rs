// crate: datalog
// BOUNDED stand-in for C06 (the exact provenance modes work on BTreeSet DNFs / SDDs and run through the
// semi-naive fix-point: outside both verifiers).
//  (a) operator level: every formula of <= 2 binary operators (and negation at the leaves / top) over 3 seed
//      variables, for DnfWmcProvenance and SddProvenance: recover_probability == truth-table sum;
//  (b) end to end: 7 rule programs (chain, alternative derivations, shared evidence joined again, recursive
//      transitive closure, two-premise joins in both premise orders) x 2 probability assignments: the
//      probability reported for every derived fact under DNF and SDD provenance equals the possible-worlds
//      probability (all subsets of the uncertain inputs, plain reasoner in each); min-max reports the best
//      derivation's weakest input; Boolean reports derivability.
use datalog::reasoning::Reasoner;
use shared::provenance::{BooleanProvenance, DnfWmcProvenance, MinMaxProbability, Provenance};
use shared::rule::Rule;
use shared::sdd::SddProvenance;
use shared::terms::Term;
use shared::triple::Triple;

const P3: [f64; 3] = [0.3, 0.6, 0.9];
fn var_table(v: usize) -> u8 { let mut t = 0u8; for a in 0..8u32 { if (a >> v) & 1 == 1 { t |= 1 << a; } } t }
fn table_prob(t: u8) -> f64 {
    let mut total = 0.0;
    for a in 0..8u32 { if (t >> a) & 1 == 1 { let mut w = 1.0; for v in 0..3 { w *= if (a >> v) & 1 == 1 { P3[v] } else { 1.0 - P3[v] }; } total += w; } }
    total
}

fn operator_level<P: Provenance>(name: &str, make: fn() -> P) {
    let p = make();
    let mut leaves: Vec<(P::Tag, u8, String)> = Vec::new();
    for v in 0..3 {
        let t = p.tag_from_probability_with_id(P3[v], v);
        leaves.push((p.negate(&t), !var_table(v), format!("!x{}", v)));
        leaves.push((t, var_table(v), format!("x{}", v)));
    }
    leaves.push((p.zero(), 0x00, "zero".into()));
    leaves.push((p.one(), 0xff, "one".into()));
    let check = |tag: &P::Tag, tab: u8, what: &str| {
        let got = p.recover_probability(tag);
        assert!((got - table_prob(tab)).abs() < 1e-9, "[{}] probability of {} is {}, the possible-worlds (truth-table) probability is {}", name, what, got, table_prob(tab));
    };
    let mut level1: Vec<(P::Tag, u8, String)> = Vec::new();
    for (a, ta, na) in &leaves { check(a, *ta, na); }
    for (a, ta, na) in &leaves { for (b, tb, nb) in &leaves {
        let c = p.conjunction(a, b); check(&c, ta & tb, &format!("({} & {})", na, nb));
        let d = p.disjunction(a, b); check(&d, ta | tb, &format!("({} | {})", na, nb));
        level1.push((c, ta & tb, format!("({} & {})", na, nb)));
        level1.push((d, ta | tb, format!("({} | {})", na, nb)));
    }}
    for (a, ta, na) in &level1 {
        let n = p.negate(a); check(&n, !ta, &format!("!{}", na));
        for (b, tb, nb) in &leaves {
            let c = p.conjunction(a, b); check(&c, ta & tb, &format!("({} & {})", na, nb));
            let c2 = p.conjunction(b, a); check(&c2, ta & tb, &format!("({} & {})", nb, na));
            let d = p.disjunction(a, b); check(&d, ta | tb, &format!("({} | {})", na, nb));
            let d2 = p.disjunction(b, a); check(&d2, ta | tb, &format!("({} | {})", nb, na));
        }
    }
    let mut k = 0usize;
    for (a, ta, na) in &level1 { for (b, tb, nb) in &level1 {
        k += 1; if k % 5 != 0 { continue; }
        let c = p.conjunction(a, b); check(&c, ta & tb, &format!("({} & {})", na, nb));
        let d = p.disjunction(a, b); check(&d, ta | tb, &format!("({} | {})", na, nb));
    }}
}

#[test] fn w__dnf_operators__agree_with_truth_tables() { operator_level("dnf", DnfWmcProvenance::new); }
#[test] fn w__sdd_operators__agree_with_truth_tables() { operator_level("sdd", SddProvenance::new); }

// ---- end to end --------------------------------------------------------------------------------------------
fn enc(r: &Reasoner, s: &str) -> u32 { r.dictionary.write().unwrap().encode(s) }
fn v(n: &str) -> Term { Term::Variable(n.into()) }
fn c(r: &Reasoner, s: &str) -> Term { Term::Constant(enc(r, s)) }
fn rule(premises: Vec<(Term, Term, Term)>, conclusions: Vec<(Term, Term, Term)>) -> Rule {
    Rule { premise: premises, negative_premise: vec![], conclusion: conclusions, filters: vec![] }
}
type Seed = (&'static str, &'static str, &'static str, f64);
struct Program { name: &'static str, seeds: Vec<Seed>, rules: fn(&mut Reasoner, bool), queries: Vec<(&'static str, &'static str, &'static str)> }

fn rules_chain(r: &mut Reasoner, _swap: bool) {
    let (p, q, s) = (c(r, "p"), c(r, "q"), c(r, "s"));
    r.add_rule(rule(vec![(v("X"), p, v("Y"))], vec![(v("X"), q.clone(), v("Y"))]));
    r.add_rule(rule(vec![(v("X"), q, v("Y"))], vec![(v("X"), s, v("Y"))]));
}
fn rules_alternatives(r: &mut Reasoner, _swap: bool) {
    let (p1, p2, q) = (c(r, "p1"), c(r, "p2"), c(r, "q"));
    r.add_rule(rule(vec![(v("X"), p1, v("Y"))], vec![(v("X"), q.clone(), v("Y"))]));
    r.add_rule(rule(vec![(v("X"), p2, v("Y"))], vec![(v("X"), q, v("Y"))]));
}
fn rules_shared(r: &mut Reasoner, swap: bool) {
    let (p1, p2, q, s, b, ok, acc) = (c(r, "p1"), c(r, "p2"), c(r, "q"), c(r, "s"), c(r, "b"), c(r, "ok"), c(r, "acc"));
    r.add_rule(rule(vec![(v("X"), p1.clone(), v("Y"))], vec![(v("X"), q.clone(), v("Y"))]));
    r.add_rule(rule(vec![(v("X"), p2, v("Y"))], vec![(v("X"), q.clone(), v("Y"))]));
    let mut prem = vec![(v("X"), q, v("Y")), (v("X"), p1, v("Y"))];
    if swap { prem.reverse(); }
    r.add_rule(rule(prem, vec![(v("X"), s.clone(), v("Y"))]));
    let mut prem2 = vec![(v("X"), s, v("Y")), (v("X"), b, ok)];
    if swap { prem2.reverse(); }
    r.add_rule(rule(prem2, vec![(v("X"), acc, v("Y"))]));
}
fn rules_tc(r: &mut Reasoner, swap: bool) {
    let (e, t) = (c(r, "e"), c(r, "t"));
    r.add_rule(rule(vec![(v("X"), e.clone(), v("Y"))], vec![(v("X"), t.clone(), v("Y"))]));
    let mut prem = vec![(v("X"), t.clone(), v("Y")), (v("Y"), e, v("Z"))];
    if swap { prem.reverse(); }
    r.add_rule(rule(prem, vec![(v("X"), t, v("Z"))]));
}
fn rules_join(r: &mut Reasoner, swap: bool) {
    let (p, q, s) = (c(r, "p"), c(r, "q"), c(r, "s"));
    let mut prem = vec![(v("X"), p, v("Y")), (v("Y"), q, v("Z"))];
    if swap { prem.reverse(); }
    r.add_rule(rule(prem, vec![(v("X"), s, v("Z"))]));
}

fn programs(alt: bool) -> Vec<Program> {
    let pr = |a: f64, b: f64| if alt { b } else { a };
    vec![
        Program { name: "chain", seeds: vec![("a", "p", "b", pr(0.3, 0.5))], rules: rules_chain, queries: vec![("a", "q", "b"), ("a", "s", "b")] },
        Program { name: "alternatives", seeds: vec![("a", "p1", "b", pr(0.3, 0.5)), ("a", "p2", "b", pr(0.6, 0.5))], rules: rules_alternatives, queries: vec![("a", "q", "b")] },
        Program { name: "shared-evidence", seeds: vec![("a", "p1", "u", pr(0.3, 0.5)), ("a", "p2", "u", pr(0.6, 0.25)), ("a", "b", "ok", pr(0.9, 0.5))], rules: rules_shared,
                  queries: vec![("a", "q", "u"), ("a", "s", "u"), ("a", "acc", "u")] },
        Program { name: "transitive-closure-path", seeds: vec![("n1", "e", "n2", pr(0.5, 0.9)), ("n2", "e", "n3", pr(0.4, 0.2)), ("n1", "e", "n3", pr(0.2, 0.7))], rules: rules_tc,
                  queries: vec![("n1", "t", "n2"), ("n2", "t", "n3"), ("n1", "t", "n3")] },
        Program { name: "transitive-closure-cycle", seeds: vec![("n1", "e", "n2", pr(0.5, 0.9)), ("n2", "e", "n1", pr(0.4, 0.2)), ("n2", "e", "n3", pr(0.7, 0.5))], rules: rules_tc,
                  queries: vec![("n1", "t", "n1"), ("n1", "t", "n3"), ("n2", "t", "n2"), ("n2", "t", "n3")] },
        Program { name: "join", seeds: vec![("a", "p", "b", pr(0.3, 0.5)), ("b", "q", "c", pr(0.6, 0.5)), ("a", "p", "d", pr(0.5, 0.1)), ("d", "q", "c", pr(0.2, 0.9))], rules: rules_join,
                  queries: vec![("a", "s", "c")] },
    ]
}

fn worlds(pg: &Program, swap: bool) -> (Vec<f64>, Vec<f64>, Vec<bool>) {
    // returns (possible-worlds probability, best derivation's weakest input (max over worlds of min seed prob among minimal support), derivable at all)
    let n = pg.seeds.len();
    let mut totals = vec![0.0; pg.queries.len()];
    let mut minmax = vec![0.0f64; pg.queries.len()];
    let mut derivable = vec![false; pg.queries.len()];
    for world in 0u32..(1 << n) {
        let mut weight = 1.0;
        let mut weakest = 1.0f64;
        let mut r = Reasoner::new();
        for (i, (s, p, o, prob)) in pg.seeds.iter().enumerate() {
            if world & (1 << i) != 0 { weight *= prob; weakest = weakest.min(*prob); r.add_abox_triple(s, p, o); } else { weight *= 1.0 - prob; }
        }
        (pg.rules)(&mut r, swap);
        r.infer_new_facts_semi_naive();
        for (qi, (s, p, o)) in pg.queries.iter().enumerate() {
            if !r.query_abox(Some(s), Some(p), Some(o)).is_empty() {
                totals[qi] += weight;
                derivable[qi] = true;
                // the world's seeds support the fact; the best derivation's weakest input is the max over supporting worlds of their weakest seed
                if world != 0 { minmax[qi] = minmax[qi].max(weakest); }
            }
        }
    }
    (totals, minmax, derivable)
}

fn reported<P: Provenance>(pg: &Program, provenance: P, swap: bool) -> Vec<Option<f64>> {
    let mut r = Reasoner::new();
    for (s, p, o, prob) in pg.seeds.iter() { r.add_tagged_triple(s, p, o, *prob); }
    (pg.rules)(&mut r, swap);
    let (_new, tags) = r.infer_new_facts_with_provenance(provenance);
    pg.queries.iter().map(|(s, p, o)| {
        if r.query_abox(Some(s), Some(p), Some(o)).is_empty() { return None; }
        let t = Triple { subject: enc(&r, s), predicate: enc(&r, p), object: enc(&r, o) };
        Some(tags.provenance().recover_probability(&tags.get_tag(&t)))
    }).collect()
}

#[test] fn w__exact_modes__equal_possible_worlds_probability() {
    for alt in [false, true] { for pg in programs(alt) { for swap in [false, true] {
        let (want, _mm, derivable) = worlds(&pg, swap);
        for (mode, got) in [("dnf", reported(&pg, DnfWmcProvenance::new(), swap)), ("sdd", reported(&pg, SddProvenance::new(), swap))] {
            for (qi, q) in pg.queries.iter().enumerate() {
                match got[qi] {
                    Some(g) => assert!((g - want[qi]).abs() < 1e-9, "[{}] program {} (premise order swapped: {}, probabilities set {}): P{:?} reported {} but the possible-worlds probability is {}", mode, pg.name, swap, alt as u8, q, g, want[qi]),
                    None => assert!(!derivable[qi], "[{}] program {}: {:?} is derivable in some world but was not derived", mode, pg.name, q),
                }
            }
        }
    }}}
}

#[test] fn w__minmax_and_boolean_modes__report_best_derivation_and_derivability() {
    for alt in [false, true] { for pg in programs(alt) { for swap in [false, true] {
        let (_want, mm, derivable) = worlds(&pg, swap);
        let got_mm = reported(&pg, MinMaxProbability, swap);
        let got_b = reported(&pg, BooleanProvenance, swap);
        for (qi, q) in pg.queries.iter().enumerate() {
            if let Some(g) = got_mm[qi] { assert!((g - mm[qi]).abs() < 1e-9, "[minmax] program {} (swap {}): {:?} reported {} but the best derivation's weakest input is {}", pg.name, swap, q, g, mm[qi]); }
            if let Some(g) = got_b[qi] { assert!(g == if derivable[qi] { 1.0 } else { 0.0 }, "[boolean] program {} (swap {}): {:?} reported {} but derivability is {}", pg.name, swap, q, g, derivable[qi]); }
        }
    }}}
}

// ---- (c) generated rule programs ----------------------------------------------------------------------------
// Three uncertain inputs (a p1 b), (a p2 b), (a p3 b); derived predicates m1, m2, g.  Rule pool: every copy rule
// x -> y and every two-premise rule (x & y) -> z of the shapes below (28 rules); programs = every subset of <= 3
// rules and a third of the subsets of 4 (thorough: all of them), in pool order and in reverse order (the order decides in which round a fact is re-derived: e.g.
// { p1&p2 -> g, p1 -> m1, m1 -> g } re-derives g in round 2 by a proof that uses FEWER inputs).
fn pool() -> Vec<(Vec<&'static str>, &'static str)> {
    let mut v: Vec<(Vec<&'static str>, &'static str)> = Vec::new();
    for p in ["p1", "p2", "p3"] { for d in ["m1", "m2", "g"] { v.push((vec![p], d)); } }
    for (a, b) in [("m1", "m2"), ("m2", "m1"), ("m1", "g"), ("m2", "g")] { v.push((vec![a], b)); }
    for (a, b) in [("p1", "p2"), ("p1", "p3"), ("p2", "p3")] { v.push((vec![a, b], "m1")); v.push((vec![a, b], "g")); }
    for p in ["p1", "p2", "p3"] { v.push((vec!["m1", p], "g")); v.push((vec!["m1", p], "m2")); }
    v.push((vec!["m1", "m2"], "g"));
    // the same fact matching both premises of one rule: p AND p is p (idempotence), not p squared
    v.push((vec!["p1", "p1"], "m2"));
    v.push((vec!["m1", "m1"], "g"));
    v
}
fn install(r: &mut Reasoner, rules: &[(Vec<&'static str>, &'static str)]) {
    for (prem, concl) in rules {
        let premises: Vec<_> = prem.iter().map(|p| (v("X"), c(r, p), v("Y"))).collect();
        let head = c(r, concl);
        r.add_rule(rule(premises, vec![(v("X"), head, v("Y"))]));
    }
}
const GEN_PROBS: [[f64; 3]; 3] = [[0.3, 0.6, 0.9], [0.5, 0.25, 0.5], [0.0, 1.0, 0.5]];   // the last set: certain and impossible inputs
const DERIVED: [&str; 3] = ["m1", "m2", "g"];

fn check_generated(rules: &[(Vec<&'static str>, &'static str)], probs: &[f64; 3]) {
    // oracle: every subset of the uncertain inputs through the plain reasoner
    let mut want = [0.0f64; 3];
    for world in 0u32..8 {
        let mut weight = 1.0;
        let mut r = Reasoner::new();
        for i in 0..3 { if world & (1 << i) != 0 { weight *= probs[i]; r.add_abox_triple("a", ["p1", "p2", "p3"][i], "b"); } else { weight *= 1.0 - probs[i]; } }
        install(&mut r, rules);
        r.infer_new_facts_semi_naive();
        for (qi, d) in DERIVED.iter().enumerate() { if !r.query_abox(Some("a"), Some(d), Some("b")).is_empty() { want[qi] += weight; } }
    }
    let run = |mode: &str, got: Vec<Option<f64>>| {
        for (qi, d) in DERIVED.iter().enumerate() {
            match got[qi] {
                Some(g) => assert!((g - want[qi]).abs() < 1e-9, "[{}] rules {:?}, input probabilities {:?}: P(a {} b) reported {} but the possible-worlds probability is {}", mode, rules, probs, d, g, want[qi]),
                None => assert!(want[qi] == 0.0, "[{}] rules {:?}: (a {} b) is derivable in some world (probability {}) but was not derived", mode, rules, d, want[qi]),
            }
        }
    };
    fn reported_gen<P: Provenance>(rules: &[(Vec<&'static str>, &'static str)], probs: &[f64; 3], provenance: P) -> Vec<Option<f64>> {
        let mut r = Reasoner::new();
        for i in 0..3 { r.add_tagged_triple("a", ["p1", "p2", "p3"][i], "b", probs[i]); }
        install(&mut r, rules);
        let (_new, tags) = r.infer_new_facts_with_provenance(provenance);
        DERIVED.iter().map(|d| {
            if r.query_abox(Some("a"), Some(d), Some("b")).is_empty() { return None; }
            let t = Triple { subject: enc(&r, "a"), predicate: enc(&r, d), object: enc(&r, "b") };
            Some(tags.provenance().recover_probability(&tags.get_tag(&t)))
        }).collect()
    }
    run("dnf", reported_gen(rules, probs, DnfWmcProvenance::new()));
    run("sdd", reported_gen(rules, probs, SddProvenance::new()));
}

#[test] fn w__exact_modes__generated_programs_equal_possible_worlds_probability() {
    let pool = pool();
    let thorough = std::env::var("VERIF_TIER").map_or(false, |v| v == "thorough");
    let n = pool.len();
    let mut count = 0u64;
    let mut go = |idx: &[usize]| {
        let rules: Vec<_> = idx.iter().map(|i| pool[*i].clone()).collect();
        let mut rev = rules.clone(); rev.reverse();
        // both probability sets on every 4th program, the first set on the others (thorough: both everywhere)
        count += 1;
        check_generated(&rules, &GEN_PROBS[0]);
        check_generated(&rev, &GEN_PROBS[0]);
        if thorough || count % 4 == 0 { check_generated(&rules, &GEN_PROBS[1]); }
        if thorough || count % 4 == 1 { check_generated(&rules, &GEN_PROBS[2]); }
    };
    for a in 0..n { go(&[a]); for b in a + 1..n { go(&[a, b]); for c in b + 1..n { go(&[a, b, c]); for d in c + 1..n { if thorough || (a + b + c + d) % 3 == 0 { go(&[a, b, c, d]); } } } } }
    assert!(count > 2000);
}
