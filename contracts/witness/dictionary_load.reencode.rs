// crate: shared
// Executable rendering of the contract clauses of unit dictionary_load over a tiny exhaustive
// universe (dictionaries built by encoding every sequence of <= 2 terms over {"a","b","c"}).
// Replay support only - never evidence for a pass.
use shared::dictionary::Dictionary;

fn universe() -> Vec<Vec<&'static str>> {
    let al = ["a", "b", "c"];
    let mut v: Vec<Vec<&'static str>> = vec![vec![]];
    for x in al { v.push(vec![x]); }
    for x in al { for y in al { v.push(vec![x, y]); } }
    v
}
fn build(seq: &[&str]) -> Dictionary {
    let mut d = Dictionary::new();
    for s in seq { d.encode(s); }
    d
}

#[test]
fn w__Dictionary_reencode_from__same_lexical_term() {
    for a in universe() { for b in universe() {
        let o = build(&b);
        for id in 0..3u32 {
            let mut s = build(&a);
            let before = s.clone();
            let r = s.reencode_from(&o, id);
            assert!(r.is_some() == o.id_to_string.contains_key(&id), "self={:?} source={:?} id={}: r={:?}", a, b, id, r);
            if let Some(n) = r {
                assert!(s.decode(n) == o.decode(id), "self=encode{:?} source=encode{:?} id={}: reencoded id {} denotes {:?}, source term {:?}", a, b, id, n, s.decode(n), o.decode(id));
            }
            for (i, t) in before.id_to_string.iter() {
                assert!(s.decode(*i) == Some(t.as_str()), "self=encode{:?} source=encode{:?} id={}: old id {} changed", a, b, id, i);
            }
        }
    }}
}
