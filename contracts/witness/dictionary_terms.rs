// crate: shared
// BOUNDED stand-in for the decode side of C15 (decode_term / decode_triple_star build strings with format!,
// which no verifier here reads): for every term over 2 plain leaves with quoted triples nested up to depth 2 in
// ANY position, decoding the encoded identifier renders exactly the original term; distinct terms get distinct
// identifiers; identifiers handed out earlier still decode to the same term after more terms arrive.
use shared::dictionary::Dictionary;
use shared::quoted_triple_store::{is_quoted_triple_id, QuotedTripleStore};

#[derive(Clone, Debug, PartialEq, Eq, PartialOrd, Ord)]
enum T { Leaf(&'static str), Q(Box<T>, Box<T>, Box<T>) }
fn render(t: &T) -> String { match t { T::Leaf(s) => s.to_string(), T::Q(a, b, c) => format!("<< {} {} {} >>", render(a), render(b), render(c)) } }
fn encode(t: &T, d: &mut Dictionary, q: &mut QuotedTripleStore) -> u32 {
    match t { T::Leaf(s) => d.encode(s), T::Q(a, b, c) => { let (x, y, z) = (encode(a, d, q), encode(b, d, q), encode(c, d, q)); q.encode(x, y, z) } }
}
fn terms(depth: usize) -> Vec<T> {
    let mut v = vec![T::Leaf("http://e/a"), T::Leaf("\"lit\"")];
    for _ in 0..depth {
        let cur = v.clone();
        // one quoted level: every position may hold any term of the previous level (capped to keep the space small)
        let pool: Vec<T> = cur.iter().take(6).cloned().collect();
        for a in &pool { for b in &pool { for c in &pool {
            let t = T::Q(Box::new(a.clone()), Box::new(b.clone()), Box::new(c.clone()));
            if !v.contains(&t) { v.push(t); }
        }}}
    }
    v
}

#[test] fn w__Dictionary_decode_term__any() {
    let all = terms(2);
    let mut d = Dictionary::new();
    let mut q = QuotedTripleStore::new();
    let mut ids: Vec<(T, u32)> = Vec::new();
    for t in &all {
        let id = encode(t, &mut d, &mut q);
        assert!(is_quoted_triple_id(id) == matches!(t, T::Q(..)), "term {:?}: identifier {} is in the wrong range", render(t), id);
        assert!(encode(t, &mut d, &mut q) == id, "term {:?} encodes to two different identifiers", render(t));
        for (u, uid) in &ids { assert!(*uid != id, "distinct terms {:?} and {:?} share identifier {}", render(u), render(t), id); }
        ids.push((t.clone(), id));
        // every identifier handed out so far still decodes to its own term
        for (u, uid) in &ids {
            let got = d.decode_term(*uid, &q);
            assert!(got == Some(render(u)), "after encoding {} terms: decode_term({}) = {:?}, the term encoded there is {:?}", ids.len(), uid, got, render(u));
        }
    }
}

// ---- Dictionary::merge of COMPATIBLE dictionaries (one is a prefix of the other), then more terms arrive ---------------
#[test] fn w__Dictionary_merge__any() {
    let terms = ["rdf:type", "ex:Sensor", "ex:s1", "ex:temperature", "21.5", "ex:s2"];
    let fresh = ["new:a", "new:b", "new:c"];
    for k in 0..=terms.len() { for j in 0..=k { for direction in 0..2 {
        let mut big = Dictionary::new();
        for t in &terms[..k] { big.encode(t); }
        let mut small = Dictionary::new();
        for t in &terms[..j] { small.encode(t); }
        // direction 0: the smaller dictionary is merged into the larger one; 1: the larger into the smaller
        let mut target = if direction == 0 { big.clone() } else { small.clone() };
        let source = if direction == 0 { &small } else { &big };
        target.merge(source);
        let ctx = format!("a dictionary of the first {} terms merged {} one of the first {} terms", if direction == 0 { k } else { j }, "with", if direction == 0 { j } else { k });
        let mut expected: Vec<(u32, String)> = terms[..k].iter().enumerate().map(|(i, t)| (i as u32, t.to_string())).collect();
        for (id, t) in &expected {
            assert!(target.decode(*id) == Some(t.as_str()), "{}: identifier {} decodes to {:?}, expected {:?}", ctx, id, target.decode(*id), t);
            assert!(target.encode(t) == *id, "{}: term {:?} no longer encodes to its identifier {}", ctx, t, id);
        }
        // identifiers handed out afterwards are fresh, earlier ones keep their terms
        for t in fresh {
            let id = target.encode(t);
            for (other_id, other) in &expected { assert!(*other_id != id, "{}: the new term {:?} received identifier {}, which already denotes {:?}", ctx, t, id, other); }
            expected.push((id, t.to_string()));
            for (eid, et) in &expected { assert!(target.decode(*eid) == Some(et.as_str()), "{}: after encoding {:?}: identifier {} decodes to {:?}, expected {:?}", ctx, t, eid, target.decode(*eid), et); }
        }
    }}}
}

// ---- the boundary between plain and quoted identifiers: the last plain identifier is 0x7FFF_FFFF -------------------------
#[test] fn w__Dictionary_encode__never_hands_out_an_identifier_of_the_quoted_range() {
    for start in [0x7FFF_FFFDu32, 0x7FFF_FFFE, 0x7FFF_FFFF, 0x8000_0000] {
        let mut d = Dictionary::new();
        let mut q = QuotedTripleStore::new();
        let (a, b, c) = (d.encode("a"), d.encode("b"), d.encode("c"));
        let qt = q.encode(a, b, c);
        d.next_id = start;   // the counter is a public field; Dictionary::merge also moves it
        for i in 0..4 {
            let term = format!("term-{}", i);
            let r = std::panic::catch_unwind(std::panic::AssertUnwindSafe(|| d.encode(&term)));
            match r {
                Err(_) => break,   // refusing is fine: the plain range is exhausted
                Ok(id) => {
                    assert!(!is_quoted_triple_id(id), "counter at {:#x}: the plain term {:?} received identifier {:#x}, which lies in the quoted-triple range", start, term, id);
                    assert!(id != qt, "plain term {:?} shares identifier {:#x} with a quoted triple", term, id);
                    assert!(d.decode_term(id, &q) == Some(term.clone()), "counter at {:#x}: identifier {:#x} of {:?} decodes to {:?}", start, id, term, d.decode_term(id, &q));
                }
            }
        }
    }
}
