// crate: kolibrie
// Executable rendering of the contract of apply_mutations through the public update entry point:
// for every initial dataset I, deletion set D and insertion set S over a universe of two triples in two
// graphs (default + one named), `DELETE { D } INSERT { S } WHERE { }` must leave exactly (I \ D) u S, report
// deleted == |D n I| and inserted == |S \ (I \ D)|.  Replay support / bounded stand-in only.
use kolibrie::execute_query::execute_sparql_update;
use kolibrie::sparql_database::SparqlDatabase;
use std::collections::BTreeSet;

const U: [(&str, &str, &str, Option<&str>); 3] = [
    ("http://e/a", "http://e/p", "http://e/b", None),
    ("http://e/a", "http://e/p", "http://e/c", None),
    ("http://e/a", "http://e/p", "http://e/b", Some("http://e/g")),
];

fn block(set: u32) -> String {
    let mut s = String::new();
    for (i, (a, p, b, g)) in U.iter().enumerate() {
        if set & (1 << i) != 0 {
            match g {
                None => s.push_str(&format!("<{}> <{}> <{}> . ", a, p, b)),
                Some(g) => s.push_str(&format!("GRAPH <{}> {{ <{}> <{}> <{}> . }} ", g, a, p, b)),
            }
        }
    }
    s
}

fn dataset(db: &SparqlDatabase) -> BTreeSet<(String, String, String, Option<String>)> {
    db.dataset_index.all_quads().into_iter().map(|q| (
        db.decode_any(q.subject).unwrap_or_default(), db.decode_any(q.predicate).unwrap_or_default(), db.decode_any(q.object).unwrap_or_default(),
        match q.graph { shared::dataset_index::GraphId::Default => None, shared::dataset_index::GraphId::Named(g) => db.decode_any(g) })).collect()
}
fn as_set(set: u32) -> BTreeSet<(String, String, String, Option<String>)> {
    U.iter().enumerate().filter(|(i, _)| set & (1 << i) != 0).map(|(_, (a, p, b, g))| (a.to_string(), p.to_string(), b.to_string(), g.map(|x| x.to_string()))).collect()
}

fn explore() {
    for init in 0..8u32 { for del in 0..8u32 { for ins in 0..8u32 {
        if del == 0 && ins == 0 { continue; }
        let mut db = SparqlDatabase::new();
        if init != 0 {
            execute_sparql_update(&format!("INSERT DATA {{ {} }}", block(init)), &mut db).expect("seed");
        }
        assert_eq!(dataset(&db), as_set(init), "seeding");
        let text = if del != 0 && ins != 0 { format!("DELETE {{ {} }} INSERT {{ {} }} WHERE {{ }}", block(del), block(ins)) }
                   else if del != 0 { format!("DELETE {{ {} }} WHERE {{ }}", block(del)) }
                   else { format!("INSERT {{ {} }} WHERE {{ }}", block(ins)) };
        let summary = execute_sparql_update(&text, &mut db).unwrap_or_else(|e| panic!("update {:?} rejected: {}", text, e));
        let i = as_set(init); let d = as_set(del); let s = as_set(ins);
        let mid: BTreeSet<_> = i.difference(&d).cloned().collect();
        let want: BTreeSet<_> = mid.union(&s).cloned().collect();
        assert!(dataset(&db) == want, "initial {:?}; update {:?}: dataset is {:?}, SPARQL Update semantics (deletions before insertions) gives {:?}", i, text, dataset(&db), want);
        let want_deleted = d.intersection(&i).count();
        let want_inserted = s.difference(&mid).count();
        assert!(summary.deleted_quads == want_deleted && summary.inserted_quads == want_inserted,
            "initial {:?}; update {:?}: reported deleted={} inserted={}, actually changed deleted={} inserted={}", i, text, summary.deleted_quads, summary.inserted_quads, want_deleted, want_inserted);
    }}}
}

#[test] fn w__apply_mutations__any() { explore(); }
