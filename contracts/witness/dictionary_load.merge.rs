// crate: shared
// Executable rendering of the contract clauses of unit dictionary_load over a tiny exhaustive
// universe (dictionaries built by encoding every sequence of <= 2 terms over {"a","b","c"}).
// Replay support only - never evidence for a pass.
use shared::dictionary::Dictionary;

fn universe() -> Vec<Vec<&'static str>> {
    let al = ["a", "b", "c"];
    let mut v: Vec<Vec<&'static str>> = vec![vec![]];
    for x in al { v.push(vec![x]); }
    for x in al { for y in al { v.push(vec![x, y]); } }
    v
}
fn build(seq: &[&str]) -> Dictionary {
    let mut d = Dictionary::new();
    for s in seq { d.encode(s); }
    d
}

#[test]
fn w__Dictionary_merge__other_terms_survive() {
    for a in universe() { for b in universe() {
        let mut s = build(&a);
        let o = build(&b);
        s.merge(&o);
        for (i, t) in o.id_to_string.iter() {
            assert!(s.decode(*i) == Some(t.as_str()),
                "self=encode{:?} other=encode{:?}: after self.merge(&other) id {} of other denotes {:?} in self, but {:?} in other", a, b, i, s.decode(*i), t);
        }
    }}
}

#[test]
fn w__Dictionary_merge__merge_wf_preserved() {
    for a in universe() { for b in universe() {
        let mut s = build(&a);
        let o = build(&b);
        s.merge(&o);
        for (k, i) in s.string_to_id.iter() {
            assert!(s.id_to_string.get(i) == Some(k),
                "self=encode{:?} other=encode{:?}: after merge term {:?} has id {} but that id decodes to {:?}", a, b, k, i, s.id_to_string.get(i));
        }
    }}
}

