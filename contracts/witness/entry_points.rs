// crate: kolibrie
// BOUNDED stand-ins for C17 and C03 through the public string entry points (parser + planner + engine are
// outside both verifiers).  Replay support / bounded stand-in only - never counted as proved.
use kolibrie::execute_query::{execute_sparql_query, execute_sparql_update};
use kolibrie::sparql_database::SparqlDatabase;
use shared::dataset_index::GraphId;
use std::collections::BTreeSet;

type Q = (String, String, String, Option<String>);
fn dataset(db: &SparqlDatabase) -> (BTreeSet<Q>, BTreeSet<String>) {
    let quads = db.dataset_index.all_quads().into_iter().map(|q| (
        db.decode_any(q.subject).unwrap_or_default(), db.decode_any(q.predicate).unwrap_or_default(), db.decode_any(q.object).unwrap_or_default(),
        match q.graph { GraphId::Default => None, GraphId::Named(g) => db.decode_any(g) })).collect();
    let graphs = db.dataset_index.named_graphs().into_iter().filter_map(|g| match g { GraphId::Named(n) => db.decode_any(n), _ => None }).collect();
    (quads, graphs)
}
fn q(s: &str, p: &str, o: &str, g: Option<&str>) -> Q { (s.into(), p.into(), o.into(), g.map(|x| x.into())) }

fn states() -> Vec<SparqlDatabase> {
    let mut v = vec![SparqlDatabase::new()];
    let mut db = SparqlDatabase::new();
    execute_sparql_update("INSERT DATA { <http://e/a> <http://e/p> <http://e/b> . <http://e/a> <http://e/p> \"lit\" . GRAPH <http://e/g> { <http://e/c> <http://e/p> <http://e/d> . } }", &mut db).expect("seed");
    v.push(db);
    v
}

const UPDATES: [&str; 8] = [
    "INSERT DATA { <http://e/x> <http://e/p> <http://e/y> . }",
    "DELETE DATA { <http://e/a> <http://e/p> <http://e/b> . }",
    "DELETE { ?s <http://e/p> ?o } WHERE { ?s <http://e/p> ?o }",
    "INSERT { ?s <http://e/q> ?o } WHERE { ?s <http://e/p> ?o }",
    "DELETE { ?s <http://e/p> ?o } INSERT { ?s <http://e/q> ?o } WHERE { ?s <http://e/p> ?o }",
    "DELETE WHERE { ?s <http://e/p> ?o }",
    "INSERT { GRAPH <http://e/new> { <http://e/x> <http://e/p> <http://e/y> . } } WHERE { }",
    "PREFIX e: <http://e/> INSERT DATA { e:x e:p e:y }",
];
const ALIASES: [&str; 2] = [
    "INSERT { <http://e/x> <http://e/p> <http://e/y> . }",
    "DELETE { <http://e/a> <http://e/p> <http://e/b> . }",
];
const QUERIES: [&str; 13] = [
    // dataset clauses and GRAPH patterns naming graphs that do NOT exist: reading must not create their identity
    "SELECT ?s FROM NAMED <http://e/absent> WHERE { GRAPH ?g { ?s ?p ?o } }",
    "SELECT ?s FROM <http://e/absent> WHERE { ?s ?p ?o }",
    "SELECT ?s FROM <http://e/g> FROM NAMED <http://e/absent2> WHERE { ?s ?p ?o }",
    "SELECT ?s WHERE { GRAPH <http://e/absent3> { ?s ?p ?o } }",
    "PREFIX e: <http://e/> SELECT ?s FROM NAMED e:absent4 WHERE { GRAPH e:absent4 { ?s ?p ?o } }",
    "SELECT ?g WHERE { GRAPH ?g { } }",
    "SELECT ?s WHERE { { ?s <http://e/p> ?o } UNION { GRAPH <http://e/absent5> { ?s ?p ?o } } }",
    "SELECT ?s ?o WHERE { ?s <http://e/p> ?o }",
    "SELECT * WHERE { GRAPH ?g { ?s ?p ?o } }",
    "SELECT ?s WHERE { ?s <http://e/p> ?o . FILTER(?o = \"lit\") } ORDER BY ?s LIMIT 1",
    "SELECT (COUNT(?s) AS ?n) WHERE { ?s ?p ?o }",
    "SELECT ?s FROM <http://e/g> WHERE { ?s ?p ?o }",
    "PREFIX e: <http://e/> SELECT ?o WHERE { e:a e:p ?o }",
];
const GARBAGE: [&str; 12] = [
    "", " ", "SELECT", "SELECT ?s WHERE {", "SELEC ?s WHERE { ?s ?p ?o }", "INSERT DATA { <a> <b> }", "DELETE DATA { ?s <p> <o> }",
    "SELECT ?s WHERE { ?s <http://e/p> \"caf\u{e9} \u{20ac} \u{1d11e}\" } \u{e9}", "\u{1d11e}\u{1d11e}\u{1d11e}", "INSERT DATA { <http://e/\u{e9}> <http://e/p> \"\u{20ac}\" ",
    "SELECT ?s WHERE { ?s ?p ?o } } trailing \u{20ac}", "DELETE { _:b <http://e/p> ?o } WHERE { ?s <http://e/p> ?o }",
];

/// C17: whatever text is submitted, the query-only entry point leaves quads and graph catalog unchanged; update syntax is refused
#[test] fn w__execute_sparql_query__never_mutates() {
    for (si, mut db) in states().into_iter().enumerate() {
        let before = dataset(&db);
        for text in UPDATES.iter().chain(ALIASES.iter()).chain(QUERIES.iter()).chain(GARBAGE.iter()) {
            let r = std::panic::catch_unwind(std::panic::AssertUnwindSafe(|| execute_sparql_query(text, &mut db)));
            let r = match r { Ok(r) => r, Err(_) => panic!("state {}: execute_sparql_query({:?}) panicked instead of returning an error", si, text) };
            let after = dataset(&db);
            assert!(after == before, "state {}: execute_sparql_query({:?}) changed the stored dataset: before {:?}, after {:?}", si, text, before, after);
            if UPDATES.contains(text) {
                assert!(r.is_err(), "state {}: update syntax {:?} was not refused by the query-only entry point", si, text);
            }
        }
    }
}

/// C17: the error-preserving entry points return an error value for malformed requests instead of crashing
#[test] fn w__entry_points__malformed_requests_fail_cleanly() {
    for (si, mut db) in states().into_iter().enumerate() {
        for text in GARBAGE.iter() {
            let before = dataset(&db);
            let r = std::panic::catch_unwind(std::panic::AssertUnwindSafe(|| execute_sparql_update(text, &mut db)));
            match r { Ok(Ok(_)) => panic!("state {}: execute_sparql_update accepted malformed text {:?}", si, text), Ok(Err(_)) => {}, Err(_) => panic!("state {}: execute_sparql_update({:?}) panicked", si, text) }
            assert!(dataset(&db) == before, "state {}: rejected update {:?} changed the dataset", si, text);
        }
    }
}

// ---- C03: sequences of updates against a model ---------------------------------------------------------
const P: &str = "http://e/p";
const QP: &str = "http://e/q";
fn apply_model(m: &mut BTreeSet<Q>, op: usize) -> Option<(usize, usize)> {
    // returns (inserted, deleted) or None when the operation must be rejected
    let pm: Vec<Q> = m.iter().filter(|x| x.1 == P && x.3.is_none()).cloned().collect();
    match op {
        0 => { let n = m.insert(q("http://e/x", P, "http://e/y", None)); Some((n as usize, 0)) }
        1 => { let n = m.remove(&q("http://e/a", P, "http://e/b", None)); Some((0, n as usize)) }
        2 | 5 => { let mut d = 0; for x in &pm { if m.remove(x) { d += 1; } } Some((0, d)) }
        3 => { let mut i = 0; for x in &pm { if m.insert((x.0.clone(), QP.into(), x.2.clone(), None)) { i += 1; } } Some((i, 0)) }
        4 => { let mut d = 0; for x in &pm { if m.remove(x) { d += 1; } } let mut i = 0; for x in &pm { if m.insert((x.0.clone(), QP.into(), x.2.clone(), None)) { i += 1; } } Some((i, d)) }
        6 => { let n = m.insert(q("http://e/x", P, "http://e/y", Some("http://e/new"))); Some((n as usize, 0)) }
        7 => { let n = m.insert(q("http://e/x", P, "http://e/y", None)); Some((n as usize, 0)) }
        8 => None, // blank node in a DELETE template: rejected, dataset unchanged
        9 => None, // malformed
        _ => unreachable!(),
    }
}
fn text_of(op: usize) -> &'static str {
    match op { 0..=7 => UPDATES[op], 8 => "DELETE { _:b <http://e/p> ?o } WHERE { ?s <http://e/p> ?o }", 9 => "INSERT DATA { <http://e/x> <http://e/p> ", _ => unreachable!() }
}

#[test] fn w__update_sequences__agree_with_sparql_update_semantics() {
    let nops = 10usize;
    for si in 0..2 {
        for a in 0..nops { for b in 0..nops { for c in 0..nops {
            let mut db = states().remove(si);
            let mut model = dataset(&db).0;
            for (k, op) in [a, b, c].iter().enumerate() {
                let r = execute_sparql_update(text_of(*op), &mut db);
                let want = apply_model(&mut model, *op);
                match (&r, want) {
                    (Ok(s), Some((i, d))) => assert!(s.inserted_quads == i && s.deleted_quads == d,
                        "state {} ops {:?} (step {}): {:?} reported inserted={} deleted={}, the quads that actually changed: inserted={} deleted={}", si, [a, b, c], k, text_of(*op), s.inserted_quads, s.deleted_quads, i, d),
                    (Err(_), None) => {}
                    (Ok(_), None) => panic!("state {} ops {:?} (step {}): {:?} must be rejected but was accepted", si, [a, b, c], k, text_of(*op)),
                    (Err(e), Some(_)) => panic!("state {} ops {:?} (step {}): {:?} rejected: {}", si, [a, b, c], k, text_of(*op), e),
                }
                let got = dataset(&db).0;
                assert!(got == model, "state {} ops {:?} (after step {}: {:?}): dataset is {:?}, SPARQL Update semantics gives {:?}", si, [a, b, c], k, text_of(*op), got, model);
            }
        }}}
    }
}

// aliases so that a failed Verus obligation of unit execute_query finds its concrete input here
#[test] fn w__execute_sparql_query__any() { w__execute_sparql_query__never_mutates(); }
#[test] fn w__execute_update_operation__any() { w__update_sequences__agree_with_sparql_update_semantics(); }
#[test] fn w__execute_modify__any() { w__update_sequences__agree_with_sparql_update_semantics(); }
#[test] fn w__execute_update_request__any() { w__update_sequences__agree_with_sparql_update_semantics(); }
#[test] fn w__execute_sparql_update__any() { w__update_sequences__agree_with_sparql_update_semantics(); }

/// C03: template blank nodes are fresh per solution, shared within one solution
#[test] fn w__instantiate_templates__blank_nodes_fresh_per_solution() {
    for n in 1..=3usize {
        let mut db = SparqlDatabase::new();
        let mut seed = String::from("INSERT DATA { ");
        for i in 0..n { seed.push_str(&format!("<http://e/s{}> <http://e/p> <http://e/o{}> . ", i, i)); }
        seed.push('}');
        execute_sparql_update(&seed, &mut db).expect("seed");
        let r = execute_sparql_update("INSERT { _:b <http://e/about> ?s . _:b <http://e/val> ?o } WHERE { ?s <http://e/p> ?o }", &mut db).expect("update");
        let (quads, _) = dataset(&db);
        let about: Vec<&Q> = quads.iter().filter(|q| q.1 == "http://e/about").collect();
        let val: Vec<&Q> = quads.iter().filter(|q| q.1 == "http://e/val").collect();
        let nodes: BTreeSet<&String> = about.iter().map(|q| &q.0).collect();
        assert!(about.len() == n && val.len() == n && nodes.len() == n, "{} solutions: the template INSERT {{ _:b about ?s . _:b val ?o }} must create {} distinct blank nodes (one per solution), got {} 'about' quads, {} 'val' quads, {} distinct nodes: {:?}", n, n, about.len(), val.len(), nodes.len(), quads);
        for a in &about { assert!(val.iter().any(|v| v.0 == a.0), "the two template triples of one solution must share their blank node"); }
        assert!(r.inserted_quads == 2 * n, "{} solutions: reported {} inserted quads, expected {}", n, r.inserted_quads, 2 * n);
    }
}

/// C03: the WHERE result is a multiset - a solution that occurs k times instantiates the template k times, each
/// time with its own blank node (UNION branches that bind the same variables to the same values)
#[test] fn w__instantiate_templates__repeated_solutions_each_get_fresh_blank_nodes() {
    for copies in 1..=3usize {
        let mut db = SparqlDatabase::new();
        execute_sparql_update("INSERT DATA { <http://e/a> <http://e/k1> \"1\" . <http://e/a> <http://e/k2> \"2\" . <http://e/a> <http://e/k3> \"3\" . <http://e/b> <http://e/k1> \"9\" }", &mut db).expect("seed");
        // `copies` UNION branches each yield the solution {?s -> a}; one more yields {?s -> b}
        let mut branches: Vec<String> = (1..=copies).map(|i| format!("{{ ?s <http://e/k{}> \"{}\" }}", i, i)).collect();
        branches.push("{ ?s <http://e/k1> \"9\" }".to_string());
        let update = format!("INSERT {{ GRAPH <http://e/records> {{ _:r <http://e/recordOf> ?s }} }} WHERE {{ {} }}", branches.join(" UNION "));
        let r = execute_sparql_update(&update, &mut db).expect("update");
        let (quads, _) = dataset(&db);
        let of_a = quads.iter().filter(|q| q.1 == "http://e/recordOf" && q.2 == "http://e/a").count();
        let of_b = quads.iter().filter(|q| q.1 == "http://e/recordOf" && q.2 == "http://e/b").count();
        assert!(of_a == copies && of_b == 1 && r.inserted_quads == copies + 1,
            "the WHERE pattern yields the solution ?s=a {} time(s) and ?s=b once; INSERT {{ _:r recordOf ?s }} must create one fresh blank node per solution: {} records of a (expected {}), {} of b (expected 1), reported inserted={} (expected {}); update text: {}",
            copies, of_a, copies, of_b, r.inserted_quads, copies + 1, update);
        // a ground template over the same solutions inserts each quad once
        let g = execute_sparql_update(&update.replace("_:r", "<http://e/ground>"), &mut db).expect("ground update");
        assert!(g.inserted_quads == 2, "ground template over repeated solutions: reported {} inserted quads, expected 2", g.inserted_quads);
    }
}
#[test] fn w__instantiate_templates__any() { w__instantiate_templates__blank_nodes_fresh_per_solution(); w__instantiate_templates__repeated_solutions_each_get_fresh_blank_nodes(); }
#[test] fn w__build_dataset_view__any() { w__execute_sparql_query__never_mutates(); }
#[test] fn w__execute_select__any() { w__execute_sparql_query__never_mutates(); }
#[test] fn w__compile_dataset_graph__any() { w__execute_sparql_query__never_mutates(); }
#[test] fn w__optimize_and_execute__any() { w__execute_sparql_query__never_mutates(); }
#[test] fn w__execute_with_ids_and_dataset__any() { w__execute_sparql_query__never_mutates(); }

// ---- the HTTP query routes: GET ?query=, POST application/sparql-query, POST form query= ------------------------------------
fn pct(s: &str) -> String { s.bytes().map(|b| if b.is_ascii_alphanumeric() { (b as char).to_string() } else { format!("%{:02X}", b) }).collect() }
fn http_query_requests(text: &str) -> Vec<(String, String)> {
    vec![
        ("GET ?query=".into(), format!("GET /sparql?query={} HTTP/1.1\r\nHost: localhost\r\n\r\n", pct(text))),
        ("POST application/sparql-query".into(), format!("POST /sparql HTTP/1.1\r\nHost: localhost\r\nContent-Type: application/sparql-query\r\nContent-Length: {}\r\n\r\n{}", text.len(), text)),
        ("POST form query=".into(), format!("POST /sparql HTTP/1.1\r\nHost: localhost\r\nContent-Type: application/x-www-form-urlencoded\r\n\r\nquery={}", pct(text))),
        ("POST form query= with + for blanks".into(), format!("POST /sparql HTTP/1.1\r\nHost: localhost\r\nContent-Type: application/x-www-form-urlencoded\r\n\r\nquery={}", pct(text).replace("%20", "+"))),
    ]
}
#[test] fn w__http_query_routes__never_mutate_and_never_crash() {
    for (si, mut db) in states().into_iter().enumerate() {
        let texts: Vec<&str> = UPDATES.iter().chain(ALIASES.iter()).chain(QUERIES.iter()).chain(GARBAGE.iter()).copied().filter(|t| !t.contains('\r')).collect();
        for text in texts {
            for (route, request) in http_query_requests(text) {
                let before = dataset(&db);
                let r = std::panic::catch_unwind(std::panic::AssertUnwindSafe(|| db.handle_http_request(&request)));
                assert!(r.is_ok(), "state {}: {} carrying {:?} crashed the HTTP adapter instead of answering", si, route, text);
                let after = dataset(&db);
                assert!(after == before, "state {}: {} carrying {:?} changed the stored dataset: before {:?}, after {:?}", si, route, text, before, after);
            }
        }
    }
}
