// crate: shared
// BOUNDED stand-in for C08 (enumerate_proofs / retained_proof_wmc / evaluate_hybrid_controlled need HashMap-based
// seed snapshots and clocks: outside both verifiers).  Universe: 40 monotone lineage formulas over 4-5 independent
// seeds (flat ORs, ANDs of ORs with SHARED seeds - diamonds -, nested), 3 probability assignments, 7 (k_initial,
// k_max) settings, thresholds placed just below / at / just above the true probability, and clocks that run out
// after n calls for every n up to the number of calls of the unbudgeted run.  Every result is compared with a
// possible-worlds oracle: Exact equals it, intervals contain it, Alert => p >= threshold, NoAlert => p < threshold.
use shared::hybrid::{
    evaluate_hybrid_with_clock, evaluate_topk, AlertDecision, HybridClock, HybridConfig, HybridProbabilityResult, LineageId,
    LineageNode, LineageStore, SeedId, SeedSnapshot,
};
use shared::triple::Triple;
use std::sync::atomic::{AtomicU64, Ordering};
use std::collections::HashMap;
use std::sync::{Arc, Mutex};
use std::time::{Duration, Instant};

struct FrozenClock(Instant);
impl HybridClock for FrozenClock { fn now(&self) -> Instant { self.0 } }
/// advances by one second per call after `free` calls: every deadline eventually passes, at a chosen moment
struct StepClock { base: Instant, calls: AtomicU64, free: u64 }
impl HybridClock for StepClock {
    fn now(&self) -> Instant {
        let c = self.calls.fetch_add(1, Ordering::SeqCst);
        if c < self.free { self.base } else { self.base + Duration::from_secs(3600 * (c - self.free + 1)) }
    }
}

fn triple(n: u32) -> Triple { Triple { subject: n, predicate: 10, object: 20 } }

#[derive(Clone, Debug)]
enum F { L(usize), And(Vec<F>), Or(Vec<F>), Not(Box<F>) }
fn build(store: &mut LineageStore, ids: &[SeedId], f: &F) -> LineageId {
    match f {
        F::L(i) => store.literal(ids[*i]),
        F::And(v) => { let c: Vec<_> = v.iter().map(|x| build(store, ids, x)).collect(); store.and(c) }
        F::Or(v) => { let c: Vec<_> = v.iter().map(|x| build(store, ids, x)).collect(); store.or(c) }
        F::Not(x) => { let c = build(store, ids, x); store.not(c) }
    }
}
fn truth(store: &LineageStore, id: LineageId, world: &HashMap<SeedId, bool>) -> bool {
    match store.node(id) {
        LineageNode::False => false,
        LineageNode::True => true,
        LineageNode::Literal(seed) => world.get(seed).copied().unwrap_or(false),
        LineageNode::Not(child) => !truth(store, *child, world),
        LineageNode::And(children) => children.iter().all(|c| truth(store, *c, world)),
        LineageNode::Or(children) => children.iter().any(|c| truth(store, *c, world)),
    }
}
fn brute_force(store: &LineageStore, seeds: &SeedSnapshot, root: LineageId) -> f64 {
    let records: Vec<_> = seeds.records().collect();
    let mut total = 0.0;
    for mask in 0..(1usize << records.len()) {
        let mut world = HashMap::new();
        let mut weight = 1.0;
        for (index, record) in records.iter().enumerate() {
            let value = mask & (1 << index) != 0;
            world.insert(record.id, value);
            weight *= if value { record.probability } else { 1.0 - record.probability };
        }
        if truth(store, root, &world) { total += weight; }
    }
    total
}

fn formulas() -> Vec<F> {
    use F::*;
    let l = |i| L(i);
    let mut v = vec![
        l(0), Or(vec![l(0), l(1)]), And(vec![l(0), l(1)]), Or(vec![l(0), l(1), l(2)]), Or(vec![l(0), l(1), l(2), l(3), l(4)]),
        Or(vec![And(vec![l(0), l(1)]), And(vec![l(2), l(3)])]),
        Or(vec![And(vec![l(0), l(1)]), And(vec![l(0), l(2)])]),                    // shared seed across proofs
        And(vec![Or(vec![l(0), l(1)]), Or(vec![l(0), l(2)])]),                     // diamond: seed 0 twice on one conjunction path
        Or(vec![l(3), l(4), And(vec![Or(vec![l(0), l(1)]), Or(vec![l(0), l(2)])])]),
        And(vec![Or(vec![l(0), l(1)]), Or(vec![l(0), l(2)]), Or(vec![l(0), l(3)])]),
        And(vec![Or(vec![l(0), l(1)]), Or(vec![l(1), l(0)])]),
        Or(vec![And(vec![l(0), Or(vec![l(0), l(1)])]), l(2)]),                     // absorption
        And(vec![l(0), l(0)]),
        Or(vec![And(vec![l(0), l(1), l(2)]), And(vec![l(1), l(2), l(3)]), And(vec![l(2), l(3), l(4)])]),
        And(vec![Or(vec![l(0), And(vec![l(1), l(2)])]), Or(vec![l(1), And(vec![l(0), l(3)])])]),
    ];
    // all (a|b)&(c|d) with seeds drawn with repetition from {0,1,2}: 81 shapes -> keep the 25 with a repeated seed
    for a in 0..3 { for b in 0..3 { for c in 0..3 { for d in 0..3 {
        if a < b && c < d && (a == c || a == d || b == c || b == d) && v.len() < 40 {
            v.push(Or(vec![l(4), And(vec![Or(vec![l(a), l(b)]), Or(vec![l(c), l(d)])]), l(3)]));
        }
    }}}}
    v
}
const PROBSETS: [[f64; 5]; 3] = [[0.3, 0.01, 0.01, 0.2, 0.1], [0.5, 0.5, 0.5, 0.5, 0.5], [0.05, 0.9, 0.4, 0.02, 0.7]];

fn fixture(f: &F, probs: &[f64; 5]) -> (LineageStore, SeedSnapshot, LineageId) {
    let seed_map: HashMap<Triple, f64> = probs.iter().enumerate().map(|(i, p)| (triple(i as u32 + 1), *p)).collect();
    let seeds = SeedSnapshot::from_probability_seeds(&seed_map).unwrap();
    // seed ids in triple order
    let mut ids: Vec<(u32, SeedId)> = seeds.records().map(|r| (r.triple.subject, r.id)).collect();
    ids.sort();
    let ids: Vec<SeedId> = ids.into_iter().map(|x| x.1).collect();
    let mut store = LineageStore::new();
    let root = build(&mut store, &ids, f);
    (store, seeds, root)
}

fn sound(result: &HybridProbabilityResult, truth: f64, threshold: f64, ctx: &str) {
    const TOL: f64 = 1e-9;
    if let HybridProbabilityResult::Exact { probability, .. } = result {
        assert!((probability - truth).abs() < TOL, "{}: result marked Exact ({}) differs from the true probability {}", ctx, probability, truth);
    }
    if let Some(interval) = result.interval() {
        assert!(interval.lower - TOL <= truth && truth <= interval.upper + TOL, "{}: reported interval [{}, {}] does not contain the true probability {} ({:?})", ctx, interval.lower, interval.upper, truth, result);
    }
    match result.decision() {
        AlertDecision::Alert => assert!(truth >= threshold - TOL, "{}: Alert certified but the true probability {} < threshold {} ({:?})", ctx, truth, threshold, result),
        AlertDecision::NoAlert => assert!(truth < threshold + TOL, "{}: NoAlert certified but the true probability {} >= threshold {} ({:?})", ctx, truth, threshold, result),
        AlertDecision::Indeterminate => {}
    }
}

const KS: [(usize, usize); 7] = [(1, 1), (1, 2), (1, 4), (2, 2), (2, 8), (3, 3), (8, 64)];

#[test] fn w__hybrid__topk_intervals_contain_the_true_probability() {
    for (fi, f) in formulas().iter().enumerate() { for probs in &PROBSETS {
        let (store, seeds, root) = fixture(f, probs);
        let truth = brute_force(&store, &seeds, root);
        for k in 1..=6 {
            if let Ok(e) = evaluate_topk(&store, &seeds, root, k, Duration::from_secs(3600), 100_000) {
                assert!(e.interval.lower - 1e-9 <= truth && truth <= e.interval.upper + 1e-9,
                    "formula #{} {:?} probs {:?} k={}: top-k interval [{}, {}] does not contain the true probability {}", fi, f, probs, k, e.interval.lower, e.interval.upper, truth);
                assert!(e.lower_bound <= truth + 1e-9, "formula #{} {:?} k={}: certified lower bound {} exceeds the true probability {}", fi, f, k, e.lower_bound, truth);
                if e.frontier_exhausted { assert!((e.lower_bound - truth).abs() < 1e-9, "formula #{} {:?} k={}: frontier exhausted but lower bound {} != true probability {}", fi, f, k, e.lower_bound, truth); }
            }
        }
    }}
}

#[test] fn w__hybrid__controller_never_certifies_a_wrong_decision() {
    for (fi, f) in formulas().iter().enumerate() { for probs in &PROBSETS {
        let (store, seeds, root) = fixture(f, probs);
        let truth = brute_force(&store, &seeds, root);
        let store = Arc::new(Mutex::new(store));
        let seeds = Arc::new(seeds);
        let clock = FrozenClock(Instant::now());
        for (k_initial, k_max) in KS {
            for threshold in [truth - 0.1, truth - 0.03, truth - 1e-6, truth, truth + 1e-6, truth + 0.03, truth + 0.1, 0.0, 1.0, 0.5] {
                if !(0.0..=1.0).contains(&threshold) { continue; }
                let config = HybridConfig { threshold, k_initial, k_max, ..HybridConfig::default() };
                config.validate().unwrap();
                let result = evaluate_hybrid_with_clock(&store, &seeds, root, &config, &clock);
                sound(&result, truth, threshold, &format!("formula #{} {:?} probs {:?} k_initial={} k_max={} threshold={}", fi, f, probs, k_initial, k_max, threshold));
            }
        }
    }}
}

#[test] fn w__hybrid__budget_exhaustion_at_any_moment_is_flagged_not_guessed() {
    let thorough = std::env::var("VERIF_TIER").map_or(false, |v| v == "thorough");
    for (fi, f) in formulas().iter().enumerate().filter(|(i, _)| thorough || i % 3 == 0) {
        let probs = &PROBSETS[0];
        let (store, seeds, root) = fixture(f, probs);
        let truth = brute_force(&store, &seeds, root);
        let store = Arc::new(Mutex::new(store));
        let seeds = Arc::new(seeds);
        for (k_initial, k_max) in [(1usize, 1usize), (1, 4), (8, 64)] {
            for threshold in [truth - 0.03, truth + 0.03, 0.5] {
                if !(0.0..=1.0).contains(&threshold) { continue; }
                let config = HybridConfig { threshold, k_initial, k_max, ..HybridConfig::default() };
                // number of clock calls of a run that never expires
                let counting = StepClock { base: Instant::now(), calls: AtomicU64::new(0), free: u64::MAX };
                let _ = evaluate_hybrid_with_clock(&store, &seeds, root, &config, &counting);
                let total = counting.calls.load(Ordering::SeqCst);
                for free in 0..=total {
                    let clock = StepClock { base: Instant::now(), calls: AtomicU64::new(0), free };
                    let result = evaluate_hybrid_with_clock(&store, &seeds, root, &config, &clock);
                    sound(&result, truth, threshold, &format!("formula #{} {:?} k_initial={} k_max={} threshold={} clock expires after {} of {} calls", fi, f, k_initial, k_max, threshold, free, total));
                }
            }
        }
    }
}

// ---- lineages with negation and empty connectives, seeds with probability 0 and 1 ---------------------------------------
fn special_formulas() -> Vec<F> {
    use F::*;
    let l = |i| L(i);
    vec![
        Not(Box::new(l(0))), Or(vec![l(0), Not(Box::new(l(1)))]), And(vec![l(0), Not(Box::new(l(1)))]), And(vec![l(0), Not(Box::new(l(0)))]), Or(vec![l(0), Not(Box::new(l(0)))]),
        Not(Box::new(Or(vec![l(0), l(1)]))), Not(Box::new(And(vec![l(0), l(1), l(2)]))), Or(vec![And(vec![l(0), Not(Box::new(l(1)))]), And(vec![l(1), Not(Box::new(l(2)))]), l(3)]),
        And(vec![]), Or(vec![]), Or(vec![l(0), And(vec![])]), And(vec![l(0), Or(vec![])]), Or(vec![l(1), l(2), l(3), l(4), And(vec![l(0), Not(Box::new(l(4)))])]),
    ]
}
const SPECIAL_PROBS: [[f64; 5]; 3] = [[0.0, 1.0, 0.5, 0.3, 0.08], [1.0, 1.0, 0.0, 0.0, 0.5], [0.08, 0.08, 0.08, 0.08, 0.08]];

#[test] fn w__hybrid__negation_empty_connectives_and_certain_seeds() {
    let mut all = special_formulas();
    all.extend(formulas().into_iter().step_by(4));
    // many proofs of equal small weight: the case where residual mass decides (k + 2 or more minimal proofs)
    all.push(F::Or((0..5).map(F::L).collect()));
    for (fi, f) in all.iter().enumerate() { for probs in &SPECIAL_PROBS {
        let (store, seeds, root) = fixture(f, probs);
        let truth = brute_force(&store, &seeds, root);
        for k in 1..=6 {
            if let Ok(e) = evaluate_topk(&store, &seeds, root, k, Duration::from_secs(3600), 100_000) {
                assert!(e.interval.lower - 1e-9 <= truth && truth <= e.interval.upper + 1e-9,
                    "formula #{} {:?} probs {:?} k={}: top-k interval [{}, {}] does not contain the true probability {}", fi, f, probs, k, e.interval.lower, e.interval.upper, truth);
            }
        }
        let store = Arc::new(Mutex::new(store));
        let seeds = Arc::new(seeds);
        let clock = FrozenClock(Instant::now());
        for (k_initial, k_max) in KS {
            for threshold in [truth - 0.05, truth - 1e-6, truth, truth + 1e-6, truth + 0.05, 0.0, 1.0, 0.38, 0.3] {
                if !(0.0..=1.0).contains(&threshold) { continue; }
                let config = HybridConfig { threshold, k_initial, k_max, ..HybridConfig::default() };
                if config.validate().is_err() { continue; }
                let result = evaluate_hybrid_with_clock(&store, &seeds, root, &config, &clock);
                sound(&result, truth, threshold, &format!("formula #{} {:?} probs {:?} k_initial={} k_max={} threshold={}", fi, f, probs, k_initial, k_max, threshold));
            }
        }
    }}
}

// ---- exclusive groups (annotated disjunctions): exactly one choice of a group holds -----------------------------------------
use shared::hybrid::SeedKind;
use shared::seed_spec::{ExclusiveChoice, SeedSpec};
use std::collections::BTreeMap;

/// seeds 0,1,2: one exclusive group (probabilities sum to 1); seeds 3,4: independent
fn group_fixture(f: &F, group_probs: [f64; 3], indep: [f64; 2]) -> (LineageStore, SeedSnapshot, LineageId) {
    let specs = vec![
        SeedSpec::ExclusiveGroup { group_id: 7, choices: (0..3).map(|i| ExclusiveChoice { triple: triple(i as u32 + 1), prob: group_probs[i], choice_id: i as u32 }).collect() },
        SeedSpec::Independent { triple: triple(4), prob: indep[0], seed_id: 3 },
        SeedSpec::Independent { triple: triple(5), prob: indep[1], seed_id: 4 },
    ];
    let seeds = SeedSnapshot::from_seed_specs(&specs).unwrap();
    let mut ids: Vec<(u32, SeedId)> = seeds.records().map(|r| (r.triple.subject, r.id)).collect();
    ids.sort();
    let ids: Vec<SeedId> = ids.into_iter().map(|x| x.1).collect();
    let mut store = LineageStore::new();
    let root = build(&mut store, &ids, f);
    (store, seeds, root)
}
/// possible worlds: one choice per exclusive group x every assignment of the independent seeds
fn group_oracle(store: &LineageStore, seeds: &SeedSnapshot, root: LineageId) -> f64 {
    let mut independent = Vec::new();
    let mut groups: BTreeMap<u32, Vec<(SeedId, f64)>> = BTreeMap::new();
    for r in seeds.records() { match r.kind { SeedKind::Independent => independent.push((r.id, r.probability)), SeedKind::ExclusiveGroup(g) => groups.entry(g).or_default().push((r.id, r.probability)) } }
    let mut partial: Vec<(HashMap<SeedId, bool>, f64)> = vec![(HashMap::new(), 1.0)];
    for members in groups.values() {
        let mut next = Vec::new();
        for (world, weight) in &partial { for (chosen, p) in members {
            let mut w = world.clone();
            for (m, _) in members { w.insert(*m, m == chosen); }
            next.push((w, weight * p));
        }}
        partial = next;
    }
    let mut total = 0.0;
    for (world, weight) in &partial { for mask in 0..(1usize << independent.len()) {
        let mut w = world.clone(); let mut wt = *weight;
        for (i, (id, p)) in independent.iter().enumerate() { let v = mask & (1 << i) != 0; w.insert(*id, v); wt *= if v { *p } else { 1.0 - *p }; }
        if truth(store, root, &w) { total += wt; }
    }}
    total
}
#[test] fn w__hybrid__exclusive_groups_against_possible_worlds() {
    use F::*;
    let l = |i| L(i);
    let n = |f: F| Not(Box::new(f));
    let fs = vec![
        l(0), Or(vec![l(0), l(1)]), Or(vec![l(0), l(1), l(2)]), Or(vec![l(0), l(3)]), And(vec![l(0), l(3)]), n(l(0)), n(Or(vec![l(0), l(1)])), And(vec![l(0), l(1)]),
        Or(vec![And(vec![l(0), l(3)]), And(vec![l(1), l(4)])]), Or(vec![l(0), And(vec![l(3), l(4)])]), And(vec![Or(vec![l(0), l(3)]), Or(vec![l(1), l(4)])]), Or(vec![n(l(2)), l(4)]),
        And(vec![n(l(0)), l(3)]), Or(vec![l(2), l(3), l(4)]), And(vec![Or(vec![l(0), l(1)]), n(l(3))]),
    ];
    let clock = FrozenClock(Instant::now());
    for (fi, f) in fs.iter().enumerate() { for gp in [[0.2, 0.3, 0.5], [0.6, 0.4, 0.0], [1.0, 0.0, 0.0]] { for ip in [[0.5, 0.25], [0.08, 0.9]] {
        let (store, seeds, root) = group_fixture(f, gp, ip);
        let truth = group_oracle(&store, &seeds, root);
        for k in 1..=4 {
            if let Ok(e) = evaluate_topk(&store, &seeds, root, k, Duration::from_secs(3600), 100_000) {
                assert!(e.interval.lower - 1e-9 <= truth && truth <= e.interval.upper + 1e-9, "formula #{} {:?} group {:?} independent {:?} k={}: top-k interval [{}, {}] does not contain the true probability {}", fi, f, gp, ip, k, e.interval.lower, e.interval.upper, truth);
            }
        }
        let store = Arc::new(Mutex::new(store));
        let seeds = Arc::new(seeds);
        for (k_initial, k_max) in [(1usize, 1usize), (1, 4), (8, 64)] {
            for threshold in [truth - 0.05, truth, truth + 0.05, 0.5, 0.0, 1.0] {
                if !(0.0..=1.0).contains(&threshold) { continue; }
                let config = HybridConfig { threshold, k_initial, k_max, ..HybridConfig::default() };
                if config.validate().is_err() { continue; }
                let result = evaluate_hybrid_with_clock(&store, &seeds, root, &config, &clock);
                sound(&result, truth, threshold, &format!("formula #{} {:?} (seeds 0-2: exclusive group {:?}, seeds 3-4 independent {:?}) k_initial={} k_max={} threshold={}", fi, f, gp, ip, k_initial, k_max, threshold));
            }
        }
    }}}
}
