// crate: kolibrie
// BOUNDED stand-in for the parts of C16 that Kani cannot reach (recursive group parser, nom combinators,
// top-level dispatch, trailing-input rejection, structural faithfulness):
//  (a) totality: every concatenation of <= 5 fragments from a 16-fragment vocabulary (keywords, punctuation, terms,
//      escapes, comments, multi-byte characters) is parsed by parse_sparql_query / parse_combined_query and submitted
//      to the error-preserving entry points without a panic; an accepted SELECT leaves no unconsumed input behind;
//  (b) faithfulness: for 14 queries of the supported fragment, 10 layout variants (extra whitespace, newlines, comments,
//      lower/upper/mixed keyword case) parse to the same syntax tree as the canonical text.
use kolibrie::execute_query::{execute_sparql_query, execute_sparql_update};
use kolibrie::parser::{parse_combined_query, parse_sparql_query};
use kolibrie::sparql_database::SparqlDatabase;

const VOCAB: [&str; 16] = ["SELECT ", "?s ", "* ", "WHERE ", "{ ", "} ", ". ", "<http://e/p> ", "\"lit\" ", "\"caf\u{e9}\"@fr ", "<http://e/\\u00e9> ", "# c\n", "\u{1d11e}", "e:x ", "FILTER(?s > 1) ", "INSERT DATA "];

fn no_panic<T>(what: &str, text: &str, f: impl FnOnce() -> T) -> T {
    match std::panic::catch_unwind(std::panic::AssertUnwindSafe(f)) { Ok(v) => v, Err(_) => panic!("{} panicked on input {:?} instead of returning a syntax tree or an error", what, text) }
}

#[test] fn w__parser__total_on_fragment_concatenations() {
    let thorough = std::env::var("VERIF_TIER").map_or(false, |v| v == "thorough");
    let maxlen = if thorough { 5 } else { 4 };
    let mut idx = vec![0usize; 0];
    let mut count = 0u64;
    let mut db = SparqlDatabase::new();
    // enumerate all sequences of length 0..=maxlen
    for len in 0..=maxlen {
        idx = vec![0; len];
        loop {
            let text: String = idx.iter().map(|i| VOCAB[*i]).collect();
            count += 1;
            let t1 = text.clone();
            let r = no_panic("parse_sparql_query", &text, move || parse_sparql_query(&t1).map(|(rest, _)| rest.to_string()).map_err(|_| ()));
            if let Ok(rest) = r { assert!(rest.trim().is_empty(), "parse_sparql_query accepted {:?} but left {:?} unconsumed", text, rest); }
            let t2 = text.clone();
            let _ = no_panic("parse_combined_query", &text, move || parse_combined_query(&t2).map(|(rest, _)| rest.to_string()).map_err(|_| ()));
            // the error-preserving entry points (error rendering included) - on a sample to keep the run short
            if count % 7 == 0 || len <= 2 {
                let _ = no_panic("execute_sparql_query", &text, || execute_sparql_query(&text, &mut db).is_ok());
                let _ = no_panic("execute_sparql_update", &text, || execute_sparql_update(&text, &mut db).is_ok());
            }
            // next index vector
            let mut k = len;
            loop {
                if k == 0 { break; }
                k -= 1;
                idx[k] += 1;
                if idx[k] < VOCAB.len() { break; }
                idx[k] = 0;
                if k == 0 { k = usize::MAX; break; }
            }
            if len == 0 || k == usize::MAX { break; }
        }
    }
    assert!(count > 1000);
}

const QUERIES: [&str; 14] = [
    "SELECT ?s ?o WHERE { ?s <http://e/p> ?o }",
    "SELECT * WHERE { ?s ?p ?o . ?o <http://e/q> ?z }",
    "SELECT DISTINCT ?s WHERE { ?s <http://e/p> \"lit\" }",
    "SELECT ?s WHERE { ?s <http://e/p> ?o . FILTER(?o > 3) }",
    "SELECT ?s WHERE { { ?s <http://e/p> ?o } UNION { ?s <http://e/q> ?o } }",
    "SELECT ?s ?g WHERE { GRAPH ?g { ?s <http://e/p> ?o } }",
    "SELECT ?s WHERE { GRAPH <http://e/g> { ?s ?p ?o } }",
    "SELECT ?s WHERE { ?s <http://e/p> ?o } ORDER BY ?s LIMIT 2",
    "SELECT ?p (SUM(?o) AS ?n) WHERE { ?s ?p ?o } GROUP BY ?p",
    "SELECT ?s ?x WHERE { ?s <http://e/p> ?o . BIND(CONCAT(?o, \"-ok\") AS ?x) }",
    "SELECT ?s WHERE { VALUES ?s { <http://e/a> <http://e/b> } ?s ?p ?o }",
    "SELECT ?s FROM <http://e/g> WHERE { ?s ?p ?o }",
    "SELECT ?s WHERE { ?s <http://e/p> ?o ; <http://e/q> ?z }",
    "SELECT ?s WHERE { ?s <http://e/p> \"a\"@en . ?s <http://e/q> \"1\"^^<http://www.w3.org/2001/XMLSchema#integer> }",
];
const KEYWORDS: [&str; 17] = ["SELECT", "DISTINCT", "WHERE", "FILTER", "UNION", "GRAPH", "ORDER", "BY", "LIMIT", "SUM", "AS", "GROUP", "BIND", "VALUES", "FROM", "ASC", "DESC"];

fn variants(q: &str) -> Vec<(String, String)> {
    // tokens are separated by single spaces in the canonical text (outside literals there is no other whitespace)
    let recase = |f: &dyn Fn(&str) -> String| -> String {
        q.split(' ').map(|w| { let bare = w.trim_matches(|c| c == '(' || c == ')'); if KEYWORDS.contains(&bare) { w.replace(bare, &f(bare)) } else { w.to_string() } }).collect::<Vec<_>>().join(" ")
    };
    let mixed = |w: &str| w.chars().enumerate().map(|(i, c)| if i % 2 == 0 { c.to_ascii_lowercase() } else { c.to_ascii_uppercase() }).collect::<String>();
    let outside_literals = |sep: &str| -> String {
        let mut out = String::new(); let mut in_lit = false;
        for c in q.chars() { if c == '"' { in_lit = !in_lit; } if c == ' ' && !in_lit { out.push_str(sep); } else { out.push(c); } }
        out
    };
    vec![
        ("double spaces".into(), outside_literals("  ")),
        ("newlines and tabs".into(), outside_literals(" \n\t")),
        ("comments between tokens".into(), outside_literals(" # a comment with { } and \"quotes\"\n ")),
        ("leading and trailing whitespace".into(), format!("\n  {}  \n# trailing comment", q)),
        ("CRLF line ends".into(), outside_literals(" \r\n ")),
        ("comments ended by a bare carriage return".into(), outside_literals(" # comment ended by CR\r ")),
        ("comments ended by CRLF".into(), outside_literals(" # comment\r\n")),
        ("no optional white space".into(), {
            // drop a blank that touches one of { } ( ) . ; , (outside literals and IRIs)
            let cs: Vec<char> = q.chars().collect();
            let mut out = String::new(); let mut in_lit = false; let mut in_iri = false;
            let punct = |c: char| "{}().;,".contains(c);
            for (i, &c) in cs.iter().enumerate() {
                if c == '"' { in_lit = !in_lit; }
                if !in_lit { if c == '<' && i + 1 < cs.len() && cs[i + 1] == 'h' { in_iri = true; } if c == '>' { in_iri = false; } }
                if c == ' ' && !in_lit && !in_iri && ((i > 0 && punct(cs[i - 1])) || (i + 1 < cs.len() && punct(cs[i + 1]))) { continue; }
                out.push(c);
            }
            out
        }),
        ("lower-case keywords".into(), recase(&|w| w.to_lowercase())),
        ("mixed-case keywords".into(), recase(&mixed)),
    ]
}

#[test] fn w__parser__layout_and_keyword_case_do_not_change_the_syntax_tree() {
    for q in QUERIES {
        let canonical = match parse_combined_query(q) { Ok((rest, tree)) if rest.trim().is_empty() => format!("{:?}", tree), other => panic!("the canonical query {:?} of the supported fragment does not parse: {:?}", q, other.map(|(r, _)| r.to_string())) };
        for (name, text) in variants(q) {
            match parse_combined_query(&text) {
                Ok((rest, tree)) => {
                    assert!(rest.trim().is_empty() || rest.trim_start().starts_with('#'), "variant '{}' of {:?}: accepted with unconsumed input {:?}", name, q, rest);
                    let got = format!("{:?}", tree);
                    assert!(got == canonical, "variant '{}' of {:?} (text {:?}) parses to a DIFFERENT syntax tree:\n  canonical: {}\n  variant:   {}", name, q, text, canonical, got);
                }
                Err(_) => panic!("variant '{}' of {:?} (text {:?}) is rejected although the canonical text parses", name, q, text),
            }
        }
    }
}

// ---- (c) term faithfulness: every term generated from the token grammars is kept verbatim, in every position ----
fn product(first: &[&str], mid: &[&str], last: &[&str], max_items: usize) -> Vec<String> {
    // all item sequences f, f l, f m l, f m m l ... up to max_items items
    let mut out: Vec<String> = Vec::new();
    for f in first {
        out.push(f.to_string());
        if max_items < 2 { continue; }
        let mut mids: Vec<String> = vec![String::new()];
        for depth in 0..=max_items - 2 {
            for m in &mids { for l in last { out.push(format!("{}{}{}", f, m, l)); } }
            if depth == max_items - 2 { break; }
            let mut next = Vec::new();
            for m in &mids { for x in mid { next.push(format!("{}{}", m, x)); } }
            mids = next;
        }
    }
    out
}

fn generated_terms() -> Vec<(&'static str, String)> {
    let thorough = std::env::var("VERIF_TIER").map_or(false, |v| v == "thorough");
    let n = if thorough { 5 } else { 4 };
    let mut v: Vec<(&'static str, String)> = Vec::new();
    // PN_LOCAL ::= (PN_CHARS_U | ':' | [0-9] | PLX) ((PN_CHARS | '.' | ':' | PLX)* (PN_CHARS | ':' | PLX))?
    let first = ["a", "_", "1", ":", "%4a", "\\(", "\\-", "\\.", "\u{e9}"];
    let last = ["a", "-", "1", ":", "%4A", "\\)", "\\.", "\u{b7}", "\u{301}", "\u{e9}"];
    let mut mid = last.to_vec(); mid.push(".");
    for prefix in ["p", "", "a.b", "\u{e9}x"] {
        v.push(("prefixed name", format!("{}:", prefix)));
        for local in product(&first, &mid, &last, if prefix == "p" { n } else { 2 }) { v.push(("prefixed name", format!("{}:{}", prefix, local))); }
    }
    // IRIREF ::= '<' ([^<>"{}|^`\]-[#x00-#x20] | UCHAR)* '>'
    let iri_items = ["a", ":", "/", "#", "\u{e9}", "\\u00e9", "\\U0001D11E", "%41", "-", ".", "?", "="];
    v.push(("IRI", "<>".to_string()));
    for body in product(&iri_items, &iri_items, &iri_items, 3) { v.push(("IRI", format!("<{}>", body))); }
    // string literals with escapes, then language tag / datatype
    let str_items = ["a", " ", "\u{e9}", "\\\"", "\\\\", "\\n", "\\t", "\\u00e9", "'", "#", "{", "}", ".", "\u{1d11e}"];
    let mut bodies = vec![String::new()];
    bodies.extend(product(&str_items, &str_items, &str_items, 3));
    for (i, b) in bodies.iter().enumerate() {
        let suffixes: &[&str] = if i % 9 == 0 { &["", "@en", "@en-US", "^^<http://t/d>", "^^p:t"] } else { &[""] };
        for s in suffixes { v.push(("string literal", format!("\"{}\"{}", b, s))); }
    }
    for b in ["", "a", "a b", "\\'", "\"", "\u{e9}#"] { v.push(("string literal", format!("'{}'", b))); }
    for t in ["1", "12", "-1", "+1", "1.5", ".5", "-0.25", "1e3", "1.5E-3", "1.0e+10", "true", "false"] { v.push(("numeric / boolean literal", t.to_string())); }
    // BLANK_NODE_LABEL ::= '_:' (PN_CHARS_U | [0-9]) ((PN_CHARS | '.')* PN_CHARS)?
    for b in product(&["b", "1", "_", "\u{e9}"], &["a", "-", ".", "1", "\u{b7}"], &["a", "-", "1", "\u{b7}"], 3) { v.push(("blank node label", format!("_:{}", b))); }
    // variables: the parser's fragment is ('?'|'$') followed by Unicode alphanumerics and '_' (U+00B7 and the combining
    // marks of the full VARNAME production are outside the supported fragment, see sparql_variable)
    for x in product(&["x", "_", "1", "\u{e9}"], &["a", "_", "1", "\u{e9}"], &["a", "_", "1", "\u{e9}"], 3) { v.push(("variable", format!("?{}", x))); }
    v
}

#[test] fn w__parser__generated_terms_are_kept_verbatim_in_every_position() {
    // (text with the placeholder TERM, does the position admit literals, does it admit blank nodes)
    let contexts: [(&str, bool, bool); 11] = [
        ("SELECT * WHERE { ?s <http://e/p> TERM }", true, true),
        ("SELECT * WHERE { ?s <http://e/p> TERM . }", true, true),
        ("SELECT * WHERE { ?s <http://e/p> TERM ; <http://e/q> ?z }", true, true),
        ("SELECT * WHERE { ?s <http://e/p> TERM . ?z <http://e/q> ?s }", true, true),
        ("SELECT * WHERE { TERM <http://e/p> ?o }", false, true),
        ("SELECT * WHERE { ?s ?p ?o FILTER(TERM = ?o) }", true, false),   // the expression grammar has no blank nodes
        // the term directly followed by punctuation (no blank): where does the token end?
        ("SELECT * WHERE { ?s <http://e/p> TERM. ?z <http://e/q> ?s }", true, true),
        ("SELECT * WHERE { ?s <http://e/p> TERM; <http://e/q> ?z }", true, true),
        ("SELECT * WHERE { ?s <http://e/p> TERM, ?z }", true, true),
        ("SELECT * WHERE { ?s <http://e/p> TERM}", true, true),
        ("SELECT * WHERE { ?s ?p ?o FILTER(?o = TERM) }", true, false),
    ];
    const CANON: &str = "zz:CANONICAL";
    let esc = |s: &str| { let d = format!("{:?}", s); d[1..d.len() - 1].to_string() };
    let mut checked = 0u64;
    for (ctx, literals_ok, blank_ok) in contexts {
        let canon_text = ctx.replace("TERM", CANON);
        let canonical = match parse_combined_query(&canon_text) { Ok((rest, tree)) if rest.trim().is_empty() => format!("{:?}", tree), other => panic!("canonical query {:?} does not parse: {:?}", canon_text, other.map(|(r, _)| r.to_string())) };
        assert!(canonical.matches(CANON).count() == 1, "canonical tree of {:?} does not hold the term exactly once: {}", canon_text, canonical);
        for (class, term) in generated_terms() {
            if !literals_ok && (class == "string literal" || class == "numeric / boolean literal") { continue; }
            if !blank_ok && class == "blank node label" { continue; }
            let text = ctx.replace("TERM", &term);
            let parsed = no_panic("parse_combined_query", &text, || parse_combined_query(&text).map(|(rest, tree)| (rest.to_string(), format!("{:?}", tree))).map_err(|e| format!("{:?}", e)));
            checked += 1;
            match parsed {
                Ok((rest, got)) => {
                    assert!(rest.trim().is_empty(), "{} {:?}: query {:?} accepted with unconsumed input {:?}", class, term, text, rest);
                    let want = canonical.replace(CANON, &esc(&term));
                    assert!(got == want, "{} {:?}: query {:?} parses to a tree that does not hold the term as written:\n  expected: {}\n  got:      {}", class, term, text, want, got);
                }
                Err(e) => panic!("{} {:?} (valid by the SPARQL token grammar): query {:?} is rejected: {}", class, term, text, e),
            }
        }
    }
    assert!(checked > 10_000);
}

// ---- (d) totality on escape windows: \u / \U followed by 0..8 hex digits and then a multi-byte character ----------------
// (the scanners cut a fixed-width window after the escape marker: a multi-byte character straddling the window end is the
//  classic way to slice a &str off a character boundary)
#[test] fn w__parser__total_on_truncated_escapes_next_to_multibyte_characters() {
    let hex = "0001F64a";
    let tails = ["", "\u{e9}", "\u{20ac}", "\u{1f600}", "g", "\\", "\u{e9}\u{e9}", "0\u{20ac}"];
    let wrappers: [(&str, &str); 8] = [
        ("SELECT * WHERE { ?s <http://e/p> \"", "\" }"), ("SELECT * WHERE { ?s <http://e/p> 'x", "' }"), ("SELECT * WHERE { ?s <http://e/p> \"\"\"", "\"\"\" }"),
        ("SELECT * WHERE { ?s <http://e/", "> ?o }"), ("SELECT * WHERE { ?s ?p ?o FILTER(?o = \"", "\") }"),
        ("INSERT DATA { <http://e/s> <http://e/p> \"", "\" }"), ("SELECT * WHERE { ?s <http://e/p> \"a\"@en-", " }"), ("SELECT * WHERE { ?s <http://e/p> \"", ""),
    ];
    let mut db = SparqlDatabase::new();
    let mut count = 0u64;
    for (open, close) in wrappers { for marker in ["\\u", "\\U", "\\", "\\x"] { for n in 0..=8usize { for tail in tails { for lead in ["", "z", "\u{e9}"] {
        let text = format!("{}{}{}{}{}{}", open, lead, marker, &hex[..n], tail, close);
        count += 1;
        let t1 = text.clone();
        let _ = no_panic("parse_combined_query", &text, move || parse_combined_query(&t1).map(|_| ()).map_err(|_| ()));
        let t2 = text.clone();
        let _ = no_panic("parse_sparql_query", &text, move || parse_sparql_query(&t2).map(|_| ()).map_err(|_| ()));
        let _ = no_panic("execute_sparql_query", &text, || execute_sparql_query(&text, &mut db).is_ok());
        let _ = no_panic("execute_sparql_update", &text, || execute_sparql_update(&text, &mut db).is_ok());
    }}}}}
    assert!(count > 5000);
}

// ---- (e) structure: the syntax tree spelled out for queries whose nesting, pattern order and modifiers are the point ----
#[test] fn w__parser__structure_of_nested_and_chained_patterns() {
    let cases: [(&str, &str); 12] = [
        ("SELECT ?s WHERE { { ?s <http://e/p> ?o } UNION { ?s <http://e/q> ?o } UNION { ?s <http://e/r> ?o } }",
         "pattern: Union([Bgp([(\"?s\", \"<http://e/p>\", \"?o\")]), Bgp([(\"?s\", \"<http://e/q>\", \"?o\")]), Bgp([(\"?s\", \"<http://e/r>\", \"?o\")])]), group_vars: [], order_conditions: [], limit: None"),
        ("SELECT ?s WHERE { ?s <http://e/p> ?o . FILTER(?o > 3) ?s <http://e/q> ?z }",
         "pattern: Join([Bgp([(\"?s\", \"<http://e/p>\", \"?o\")]), Filter(Comparison(\"?o\", \">\", \"3\")), Bgp([(\"?s\", \"<http://e/q>\", \"?z\")])]), group_vars: []"),
        ("SELECT ?s WHERE { ?s <http://e/p> ?o , ?z }", "pattern: Bgp([(\"?s\", \"<http://e/p>\", \"?o\"), (\"?s\", \"<http://e/p>\", \"?z\")]), group_vars: []"),
        ("SELECT ?s WHERE { ?s <http://e/p> ?o ; <http://e/q> ?z ; }", "pattern: Bgp([(\"?s\", \"<http://e/p>\", \"?o\"), (\"?s\", \"<http://e/q>\", \"?z\")]), group_vars: []"),
        ("SELECT DISTINCT ?s WHERE { ?s <http://e/p> ?o } ORDER BY DESC(?s) LIMIT 3",
         "distinct: true, variables: [(\"VAR\", \"?s\", None)], from: [], from_named: [], pattern: Bgp([(\"?s\", \"<http://e/p>\", \"?o\")]), group_vars: [], order_conditions: [OrderCondition { variable: \"?s\", direction: Desc }], limit: Some(3)"),
        ("SELECT ?s WHERE { { ?s <http://e/p> ?o . { ?o <http://e/q> ?z } } }", "pattern: Join([Bgp([(\"?s\", \"<http://e/p>\", \"?o\")]), Bgp([(\"?o\", \"<http://e/q>\", \"?z\")])]), group_vars: []"),
        ("SELECT*WHERE{?s <http://e/p> ?o}", "variables: [(\"*\", \"*\", None)], from: [], from_named: [], pattern: Bgp([(\"?s\", \"<http://e/p>\", \"?o\")]), group_vars: []"),
        ("SELECT ?s WHERE{?s <http://e/p> 1. ?s <http://e/q> ?z}", "pattern: Join([Bgp([(\"?s\", \"<http://e/p>\", \"1\")]), Bgp([(\"?s\", \"<http://e/q>\", \"?z\")])]), group_vars: []"),
        ("SELECT ?s WHERE { ?s <http://e/p> 1.5. }", "pattern: Bgp([(\"?s\", \"<http://e/p>\", \"1.5\")]), group_vars: []"),
        ("SELECT ?s WHERE { ?s <http://e/p> _:b. ?s <http://e/q> \"x\". }", "pattern: Join([Bgp([(\"?s\", \"<http://e/p>\", \"_:b\")]), Bgp([(\"?s\", \"<http://e/q>\", \"\\\"x\\\"\")])]), group_vars: []"),
        ("SELECT ?s WHERE { ?s <http://e/p> ?o FILTER(?o = 1) }", "pattern: Join([Bgp([(\"?s\", \"<http://e/p>\", \"?o\")]), Filter(Comparison(\"?o\", \"=\", \"1\"))]), group_vars: []"),
        ("SELECT ?s WHERE { ?s <http://e/p> ?o } GROUP BY ?s", "pattern: Bgp([(\"?s\", \"<http://e/p>\", \"?o\")]), group_vars: [\"?s\"], order_conditions: [], limit: None"),
    ];
    for (q, want) in cases {
        match parse_combined_query(q) {
            Ok((rest, tree)) => {
                assert!(rest.trim().is_empty(), "query {:?} accepted with unconsumed input {:?}", q, rest);
                let got = format!("{:?}", tree.sparql);
                assert!(got.contains(want), "query {:?}: the syntax tree does not have the structure the text spells out.\n  expected to contain: {}\n  got: {}", q, want, got);
            }
            Err(e) => panic!("query {:?} of the supported fragment is rejected: {:?}", q, e),
        }
    }
    // acceptance means the whole input was consumed
    for q in ["SELECT ?s WHERE { ?s <http://e/p> ?o } trailing", "SELECT ?s WHERE { ?s <http://e/p> ?o } }", "SELECT ?s WHERE { ?s <http://e/p> ?o } SELECT ?s WHERE { ?s ?p ?o }"] {
        assert!(parse_combined_query(q).is_err() , "text after the end of the query must be rejected: {:?} was accepted", q);
    }
}
