// crate: kolibrie
// BOUNDED stand-in for the error-rendering half of C17 (format_parse_error and its detectors are &str slicing,
// char iteration and the annotate-snippets renderer: outside both verifiers).
//  (a) format_parse_error is called DIRECTLY with every error position: for every text of a family
//      <context><multi-byte name><0..N ASCII letters><tail> (contexts chosen so that every detector of
//      detect_specific_sparql_error is reached, names of 2-, 3- and 4-byte characters), every byte length that a
//      failing sub-slice can have (suffixes AND inner sub-slices, so offsets that are not character boundaries
//      too) and 4 error kinds - it must return a message, never panic;
//  (b) the same family, malformed, through execute_sparql_query / execute_sparql_update: an error value, no
//      panic, dataset unchanged.
use kolibrie::error_handler::format_parse_error;
use kolibrie::execute_query::{execute_sparql_query, execute_sparql_update};
use kolibrie::sparql_database::SparqlDatabase;
use nom::error::{Error as NomError, ErrorKind};

const CONTEXTS: [&str; 9] = [
    "SELECT ?s WHERE { ?s ?p ",                       // balanced once the tail closes the brace
    "SELECT ?s WHERE { ?s ?p ?o } ORDER BY ",
    "DELETE WHERE { ?s ?p ",
    "PREFIX ex: <http://e/> SELECT * WHERE { ex:a ",
    "SELECT * WHERE { ?s ex:",                         // undeclared prefix
    "SELECT * WHERE { ?s ?p \"",                       // odd number of quotes
    "SELECT ?s { ",                                    // no WHERE
    "",
    "INSERT DATA { <http://e/s> <http://e/p> ",
];
const NAMES: [&str; 7] = ["?\u{e9}", "?gr\u{f6}\u{df}e", "?\u{65e5}\u{672c}\u{8a9e}", "?\u{1f600}", "\u{e9}", "?x\u{1d11e}", "?a_\u{e9}"];
const TAILS: [&str; 6] = [" ?x }", " foo }", "", " }", " . }", "\n\u{e9} }"];
const KINDS: [ErrorKind; 4] = [ErrorKind::Tag, ErrorKind::Verify, ErrorKind::TakeWhile1, ErrorKind::Eof];

fn thorough() -> bool { std::env::var("VERIF_TIER").map_or(false, |v| v == "thorough") }

fn family() -> Vec<String> {
    let max_letters = if thorough() { 24 } else { 14 };
    let mut v = Vec::new();
    for c in CONTEXTS { for n in NAMES { for k in 0..=max_letters { for t in TAILS {
        v.push(format!("{}{}{}{}", c, n, "a".repeat(k), t));
    }}}}
    v
}

/// some sub-slice of `text` with byte length `len`, if one exists on character boundaries
fn sub_slice(text: &str, len: usize) -> Option<&str> {
    // suffix first (what the parser normally reports), then any inner slice
    if text.is_char_boundary(text.len() - len) { return Some(&text[text.len() - len..]); }
    let bounds: Vec<usize> = (0..=text.len()).filter(|i| text.is_char_boundary(*i)).collect();
    for a in &bounds { if let Ok(_) = bounds.binary_search(&(a + len)) { return Some(&text[*a..a + len]); } }
    None
}

#[test] fn w__format_parse_error__total_for_every_error_position() {
    let mut calls = 0u64;
    for (ti, text) in family().iter().enumerate() {
        for len in 0..=text.len() {
            let Some(slice) = sub_slice(text, len) else { continue };
            // every kind on a sample of the texts, one kind (rotating) on the others
            let kinds: &[ErrorKind] = if ti % 5 == 0 { &KINDS } else { std::slice::from_ref(&KINDS[ti % 4]) };
            for kind in kinds {
                calls += 1;
                let r = std::panic::catch_unwind(|| format_parse_error(text, nom::Err::Error(NomError::new(slice, *kind))));
                match r {
                    Ok(msg) => assert!(!msg.is_empty(), "format_parse_error({:?}, error at the last {} bytes, {:?}) returned an empty message", text, len, kind),
                    Err(_) => panic!("format_parse_error({:?}, failing slice {:?} = byte offset {}, {:?}) panicked instead of rendering an error message", text, slice, text.len() - len, kind),
                }
            }
        }
        let r = std::panic::catch_unwind(|| format_parse_error(text, nom::Err::Incomplete(nom::Needed::Unknown)));
        assert!(r.is_ok(), "format_parse_error({:?}, Incomplete) panicked", text);
    }
    assert!(calls > 10_000);
}

#[test] fn w__entry_points__malformed_multibyte_requests_fail_cleanly() {
    let mut db = SparqlDatabase::new();
    db.add_triple_parts("http://e/a", "http://e/p", "http://e/b");
    let snapshot = |db: &SparqlDatabase| (db.dataset_index.all_quads(), db.dataset_index.named_graphs());
    let before = snapshot(&db);
    let mut errors = 0u64;
    for text in family() {
        for (name, which) in [("execute_sparql_query", 0), ("execute_sparql_update", 1)] {
            let r = std::panic::catch_unwind(std::panic::AssertUnwindSafe(|| if which == 0 { execute_sparql_query(&text, &mut db).map(|_| ()) } else { execute_sparql_update(&text, &mut db).map(|_| ()) }));
            match r {
                Err(_) => panic!("{}({:?}) panicked instead of returning an error value", name, text),
                Ok(Err(_)) => errors += 1,
                Ok(Ok(())) => {}
            }
            if which == 0 { assert!(snapshot(&db) == before, "execute_sparql_query({:?}) changed the stored dataset", text); }
        }
        // an accepted update may change the data: start the next text from the same state
        if snapshot(&db) != before { db = SparqlDatabase::new(); db.add_triple_parts("http://e/a", "http://e/p", "http://e/b"); assert!(snapshot(&db) == before); }
    }
    assert!(errors > 1000, "the family is meant to be mostly malformed; only {} errors", errors);
}
