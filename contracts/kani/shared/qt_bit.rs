// Kani harness for C15: is_quoted_triple_id is exactly "bit 31 set", over all 2^32 ids (complete).
use super::{is_quoted_triple_id, QUOTED_TRIPLE_ID_BIT};

#[kani::proof]
fn quoted_id_test_is_bit31() {
    let id: u32 = kani::any();
    assert!(QUOTED_TRIPLE_ID_BIT == 0x8000_0000, "the quoted range starts at 2^31");
    assert!(is_quoted_triple_id(id) == (id >= 0x8000_0000), "is_quoted_triple_id(id) == (id >= 2^31)");
    kani::cover!(id >= 0x8000_0000, "reachable: quoted");
    kani::cover!(id < 0x8000_0000, "reachable: plain");
}
