// Kani harnesses for C07 tier 1 (shared/src/sdd.rs): the guard every budgeted SDD operation goes through.
// Loop-free; the deadline callback is a symbolic FnMut with a call counter => complete proof.
use super::{SddBudgetError, SddOperationBudget};

#[kani::proof]
fn budget_checkpoint_contract() {
    let avail: bool = kani::any();
    let mut calls = 0u32;
    let mut f = || { calls += 1; avail };
    let max_nodes: usize = kani::any();
    let r = {
        let mut b = SddOperationBudget::new(max_nodes, &mut f);
        b.checkpoint()
    };
    assert!(r == if avail { Ok(()) } else { Err(SddBudgetError::DeadlineExceeded) }, "checkpoint: Err(DeadlineExceeded) iff the deadline callback says no");
    assert!(calls == 1, "checkpoint consults the deadline exactly once");
    kani::cover!(!avail, "reachable: deadline passed");
}

#[kani::proof]
fn budget_before_allocation_contract() {
    let avail: bool = kani::any();
    let mut calls = 0u32;
    let mut f = || { calls += 1; avail };
    let max_nodes: usize = kani::any();
    let cur: usize = kani::any();
    let r = {
        let mut b = SddOperationBudget::new(max_nodes, &mut f);
        b.before_allocation(cur)
    };
    if !avail {
        assert!(r == Err(SddBudgetError::DeadlineExceeded), "deadline passed => DeadlineExceeded (takes precedence)");
    } else if cur >= max_nodes {
        assert!(r == Err(SddBudgetError::NodeBudgetExceeded), "node count at or above the limit => NodeBudgetExceeded");
    } else {
        assert!(r == Ok(()), "within budget => Ok");
    }
    assert!(calls == 1, "before_allocation consults the deadline exactly once");
    kani::cover!(avail && cur >= max_nodes, "reachable: node budget");
    kani::cover!(avail && cur < max_nodes, "reachable: ok");
}
