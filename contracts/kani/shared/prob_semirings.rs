// Kani harnesses for C06 (shared/src/provenance.rs): the min-max and Boolean provenance modes are
// exactly (max,min) on [0,1] resp. (or,and); add-mult closed forms.  Loop-free, f64 bit-precise,
// full input domain (restricted to the tag domain [0,1] where the property speaks of probabilities).
use super::{AddMultProbability, BooleanProvenance, MinMaxProbability, Provenance};

fn prob() -> f64 {
    let x: f64 = kani::any();
    kani::assume(x >= 0.0 && x <= 1.0);
    x
}
fn mx(a: f64, b: f64) -> f64 { if a >= b { a } else { b } }
fn mn(a: f64, b: f64) -> f64 { if a <= b { a } else { b } }

/// "the min-max mode reports the best derivation's weakest input": alternatives = max, premises = min
#[kani::proof]
fn minmax_is_max_min_on_unit_interval() {
    let p = MinMaxProbability;
    let a = prob();
    let b = prob();
    assert!(p.disjunction(&a, &b) == mx(a, b), "minmax disjunction(a,b) == max(a,b)");
    assert!(p.conjunction(&a, &b) == mn(a, b), "minmax conjunction(a,b) == min(a,b)");
    assert!(p.zero() == 0.0 && p.one() == 1.0, "minmax zero/one are 0 and 1");
    assert!(p.disjunction(&a, &p.zero()) == a && p.conjunction(&a, &p.one()) == a, "minmax identities");
    assert!(p.conjunction(&a, &p.zero()) == 0.0 && p.disjunction(&a, &p.one()) == 1.0, "minmax annihilators");
    let d = p.disjunction(&a, &b);
    let c = p.conjunction(&a, &b);
    assert!(d >= 0.0 && d <= 1.0 && c >= 0.0 && c <= 1.0, "minmax tags stay in [0,1]");
    kani::cover!(a < b, "reachable: a<b");
}

#[kani::proof]
fn minmax_lattice_laws() {
    let p = MinMaxProbability;
    let a = prob();
    let b = prob();
    let c = prob();
    assert!(p.disjunction(&a, &b) == p.disjunction(&b, &a) && p.conjunction(&a, &b) == p.conjunction(&b, &a), "minmax commutative");
    assert!(p.disjunction(&a, &p.disjunction(&b, &c)) == p.disjunction(&p.disjunction(&a, &b), &c), "minmax disjunction associative");
    assert!(p.conjunction(&a, &p.conjunction(&b, &c)) == p.conjunction(&p.conjunction(&a, &b), &c), "minmax conjunction associative");
    assert!(p.conjunction(&a, &p.disjunction(&b, &c)) == p.disjunction(&p.conjunction(&a, &b), &p.conjunction(&a, &c)), "minmax distributive");
    assert!(p.disjunction(&a, &p.conjunction(&a, &b)) == a, "minmax absorption");
    assert!(p.disjunction(&a, &a) == a && p.conjunction(&a, &a) == a, "minmax idempotent");
    kani::cover!(a < b && b < c, "reachable: ordered triple");
}

/// tag_from_probability clamps into [0,1]; recover is the identity on tags
#[kani::proof]
fn minmax_tag_roundtrip() {
    let p = MinMaxProbability;
    let x: f64 = kani::any();
    kani::assume(!x.is_nan());
    let t = p.tag_from_probability(x);
    assert!(t >= 0.0 && t <= 1.0, "minmax tag_from_probability lands in [0,1]");
    if x >= 0.0 && x <= 1.0 {
        assert!(p.recover_probability(&t) == x, "minmax recover(tag(p)) == p for p in [0,1]");
    } else if x < 0.0 {
        assert!(t == 0.0, "negative inputs clamp to 0");
    } else {
        assert!(t == 1.0, "inputs above 1 clamp to 1");
    }
    assert!(p.saturate(&t) == t, "minmax saturate is the identity");
    kani::cover!(x > 1.0, "reachable: clamp high");
}

/// "the Boolean mode reports plain derivability"
#[kani::proof]
fn boolean_is_or_and() {
    let p = BooleanProvenance;
    let a: bool = kani::any();
    let b: bool = kani::any();
    assert!(p.disjunction(&a, &b) == (a || b), "boolean disjunction is OR");
    assert!(p.conjunction(&a, &b) == (a && b), "boolean conjunction is AND");
    assert!(p.negate(&a) == !a, "boolean negate is NOT");
    assert!(p.zero() == false && p.one() == true, "boolean zero/one");
    assert!(p.saturate(&a) == a && p.is_saturated(&a, &b) == (a == b), "boolean saturation is equality");
    let x: f64 = kani::any();
    assert!(p.tag_from_probability(x) == (x > 0.0), "a fact is present iff its probability is positive");
    assert!(p.recover_probability(&a) == if a { 1.0 } else { 0.0 }, "boolean recover is 1 or 0");
    kani::cover!(a && !b, "reachable");
}

/// add-mult (not an exact mode): closed forms and closure of [0,1]
#[kani::proof]
fn addmult_closed_forms() {
    let p = AddMultProbability;
    let a = prob();
    let b = prob();
    assert!(p.conjunction(&a, &b) == a * b, "addmult conjunction is the product");
    assert!(p.disjunction(&a, &b) == a + b - a * b, "addmult disjunction is noisy-or");
    let c = p.conjunction(&a, &b);
    assert!(c >= 0.0 && c <= 1.0, "addmult conjunction stays in [0,1]");
    assert!(p.conjunction(&a, &p.one()) == a && p.disjunction(&a, &p.zero()) == a, "addmult identities");
    assert!(p.conjunction(&a, &p.zero()) == 0.0, "addmult annihilator");
    kani::cover!(a > 0.0 && b > 0.0 && a < 1.0, "reachable");
}
