// Kani harnesses for C12: ExpirationProvenance is exactly the (max, min, 0, u64::MAX) semiring.
// Mounted as a child module of shared/src/provenance.rs in a COPY of the tree (cfg(kani) only).
// All harnesses are loop-free over the full u64 domain => complete proofs.
use super::{ExpirationProvenance, Provenance};

fn mx(a: u64, b: u64) -> u64 { if a >= b { a } else { b } }
fn mn(a: u64, b: u64) -> u64 { if a <= b { a } else { b } }

/// "the expiry time kept for each fact is the latest time until which SOME derivation of it
///  stays FULLY supported": alternatives combine with max, premises of one derivation with min.
#[kani::proof]
fn expiry_disjunction_is_max_conjunction_is_min() {
    let p = ExpirationProvenance;
    let a: u64 = kani::any();
    let b: u64 = kani::any();
    assert!(p.disjunction(&a, &b) == mx(a, b), "disjunction(a,b) == max(a,b)");
    assert!(p.conjunction(&a, &b) == mn(a, b), "conjunction(a,b) == min(a,b)");
    kani::cover!(a < b, "reachable: a<b");
    kani::cover!(a > b, "reachable: a>b");
}

#[kani::proof]
fn expiry_identities_and_annihilators() {
    let p = ExpirationProvenance;
    let a: u64 = kani::any();
    assert!(p.zero() == 0, "zero() == 0 (never alive)");
    assert!(p.one() == u64::MAX, "one() == u64::MAX (never expires)");
    assert!(p.disjunction(&a, &p.zero()) == a && p.disjunction(&p.zero(), &a) == a, "0 is the identity of disjunction");
    assert!(p.conjunction(&a, &p.one()) == a && p.conjunction(&p.one(), &a) == a, "MAX is the identity of conjunction");
    assert!(p.conjunction(&a, &p.zero()) == p.zero(), "0 annihilates conjunction");
    assert!(p.disjunction(&a, &p.one()) == p.one(), "MAX absorbs disjunction");
    kani::cover!(a != 0 && a != u64::MAX, "reachable: interior value");
}

#[kani::proof]
fn expiry_semiring_laws() {
    let p = ExpirationProvenance;
    let a: u64 = kani::any();
    let b: u64 = kani::any();
    let c: u64 = kani::any();
    assert!(p.disjunction(&a, &b) == p.disjunction(&b, &a), "disjunction commutative");
    assert!(p.conjunction(&a, &b) == p.conjunction(&b, &a), "conjunction commutative");
    assert!(p.disjunction(&a, &p.disjunction(&b, &c)) == p.disjunction(&p.disjunction(&a, &b), &c), "disjunction associative");
    assert!(p.conjunction(&a, &p.conjunction(&b, &c)) == p.conjunction(&p.conjunction(&a, &b), &c), "conjunction associative");
    assert!(p.disjunction(&a, &a) == a && p.conjunction(&a, &a) == a, "idempotent");
    assert!(p.disjunction(&a, &p.conjunction(&a, &b)) == a, "absorption 1");
    assert!(p.conjunction(&a, &p.disjunction(&a, &b)) == a, "absorption 2");
    assert!(p.conjunction(&a, &p.disjunction(&b, &c)) == p.disjunction(&p.conjunction(&a, &b), &p.conjunction(&a, &c)), "conjunction distributes over disjunction");
    assert!(p.disjunction(&a, &p.conjunction(&b, &c)) == p.conjunction(&p.disjunction(&a, &b), &p.disjunction(&a, &c)), "disjunction distributes over conjunction");
    kani::cover!(a < b && b < c, "reachable: strictly ordered triple");
}

#[kani::proof]
fn expiry_monotone_and_saturation() {
    let p = ExpirationProvenance;
    let a: u64 = kani::any();
    let b: u64 = kani::any();
    let c: u64 = kani::any();
    if a <= b {
        assert!(p.disjunction(&a, &c) <= p.disjunction(&b, &c), "disjunction monotone");
        assert!(p.conjunction(&a, &c) <= p.conjunction(&b, &c), "conjunction monotone");
    }
    assert!(p.disjunction(&a, &b) >= a && p.disjunction(&a, &b) >= b, "an extra derivation never shortens the expiry");
    assert!(p.conjunction(&a, &b) <= a && p.conjunction(&a, &b) <= b, "a derivation lives no longer than any premise");
    assert!(p.saturate(&a) == a, "saturate is the identity");
    assert!(p.is_saturated(&a, &b) == (a == b), "is_saturated is exact equality (no epsilon)");
    assert!(p.tag_from_probability(kani::any()) == u64::MAX, "input facts without a window never expire");
    kani::cover!(a <= b && b != c, "reachable");
}
