// Kani harnesses for C08 (shared/src/hybrid.rs): the loop-free scalar functions every hybrid
// result passes through.  f64 is bit-precise IEEE-754 (NaN, +-inf, -0.0 included); all harnesses
// are loop-free over the full input domain => complete proofs of the stated clauses.
use super::*;
use std::time::Duration;

fn any_duration() -> Duration {
    let s: u64 = kani::any();
    let n: u32 = kani::any();
    kani::assume(n < 1_000_000_000);
    Duration::new(s, n)
}

/// "a reported interval is well formed": new() accepts exactly 0 <= l <= u <= 1 (finite), stores l,u unchanged
#[kani::proof]
fn interval_new_accepts_exactly_wellformed() {
    let l: f64 = kani::any();
    let u: f64 = kani::any();
    let spec_ok = l.is_finite() && u.is_finite() && 0.0 <= l && l <= u && u <= 1.0;
    match ProbabilityInterval::new(l, u) {
        Ok(i) => {
            assert!(spec_ok, "Ok only for finite 0 <= lower <= upper <= 1");
            assert!(i.lower == l && i.upper == u, "constructed interval stores the given bounds");
        }
        Err(_) => assert!(!spec_ok, "Err only when the bounds are not a sub-interval of [0,1]"),
    }
    kani::cover!(spec_ok, "reachable: accepted");
    kani::cover!(!spec_ok && l.is_finite() && u.is_finite(), "reachable: rejected finite");
    kani::cover!(l.is_nan(), "reachable: NaN");
}

/// contains(p) is exactly lower <= p <= upper; a constructed interval has width in [0,1] and contains its ends
#[kani::proof]
fn interval_contains_and_width() {
    let l: f64 = kani::any();
    let u: f64 = kani::any();
    let p: f64 = kani::any();
    if let Ok(i) = ProbabilityInterval::new(l, u) {
        assert!(i.contains(p) == (l <= p && p <= u), "contains(p) == (lower <= p <= upper)");
        assert!(i.contains(l) && i.contains(u), "an interval contains its own bounds");
        assert!(!i.contains(f64::NAN), "NaN is in no interval");
        assert!(i.width() >= 0.0 && i.width() <= 1.0, "width of a well-formed interval is in [0,1]");
        assert!(i.width() == u - l, "width == upper - lower");
        kani::cover!(i.contains(p) && l < p && p < u, "reachable: strictly inside");
    }
    let raw = ProbabilityInterval { lower: l, upper: u };
    assert!(raw.contains(p) == (l <= p && p <= u), "contains on any stored bounds");
}

/// HybridConfig::validate accepts exactly the documented ranges
#[kani::proof]
fn config_validate_accepts_exactly_documented_ranges() {
    let c = HybridConfig {
        threshold: kani::any(),
        threshold_policy: if kani::any() { ThresholdPolicyKind::Explicit } else { ThresholdPolicyKind::CostRatio },
        band_epsilon: kani::any(),
        marginal_gain_floor: kani::any(),
        k_initial: kani::any(),
        k_max: kani::any(),
        k_growth: kani::any(),
        topk_budget: any_duration(),
        sdd_budget: any_duration(),
        sdd_node_budget: kani::any(),
    };
    let spec_ok = c.threshold.is_finite() && 0.0 <= c.threshold && c.threshold <= 1.0
        && c.band_epsilon.is_finite() && 0.0 <= c.band_epsilon && c.band_epsilon <= 1.0
        && c.marginal_gain_floor.is_finite() && c.marginal_gain_floor >= 0.0
        && 1 <= c.k_initial && c.k_initial <= c.k_max
        && c.k_growth >= 2
        && c.topk_budget > Duration::ZERO && c.sdd_budget > Duration::ZERO
        && c.sdd_node_budget >= 2;
    let r = c.validate();
    assert!(r.is_ok() == spec_ok, "validate() is Ok exactly for the documented ranges");
    kani::cover!(spec_ok, "reachable: valid config");
    kani::cover!(!spec_ok, "reachable: invalid config");
}

fn any_decision() -> AlertDecision {
    let k: u8 = kani::any();
    match k % 3 { 0 => AlertDecision::Alert, 1 => AlertDecision::NoAlert, _ => AlertDecision::Indeterminate }
}

/// "when budgets run out the result is flagged as needing exact evaluation rather than guessed":
/// NeedsExact / UnsafeApproximation never read as a decision; the other variants report the stored one.
#[kani::proof]
fn result_decision_never_certifies_unfinished_results() {
    let d = any_decision();
    let x: f64 = kani::any();
    let lo: Option<f64> = if kani::any() { Some(kani::any()) } else { None };
    let hi: Option<f64> = if kani::any() { Some(kani::any()) } else { None };
    let which: u8 = kani::any();
    kani::assume(which < 5);
    let r = match which {
        0 => HybridProbabilityResult::Exact { probability: x, decision: d, reason: HybridReason::ExactSdd, metrics: HybridMetrics::default() },
        1 => HybridProbabilityResult::LowerBound { lower_bound: x, decision: d, reason: HybridReason::TopKBudget, metrics: HybridMetrics::default() },
        2 => HybridProbabilityResult::Bounded { interval: ProbabilityInterval { lower: x, upper: x }, decision: d, reason: HybridReason::NearThreshold, metrics: HybridMetrics::default() },
        3 => HybridProbabilityResult::NeedsExact { lower_bound: lo, upper_bound: hi, reason: HybridReason::SddBudget, metrics: HybridMetrics::default() },
        _ => HybridProbabilityResult::UnsafeApproximation { estimate: x, reason: HybridReason::DiagnosticOnly, metrics: HybridMetrics::default() },
    };
    if which >= 3 {
        assert!(r.decision() == AlertDecision::Indeterminate, "NeedsExact/UnsafeApproximation are never read as Alert/NoAlert");
    } else {
        assert!(r.decision() == d, "Exact/LowerBound/Bounded report the stored decision");
    }
    kani::cover!(which == 3 && d == AlertDecision::Alert, "reachable: NeedsExact");
}

/// interval() of each variant: Exact{p} -> [p,p]; LowerBound{l} -> [l,1]; Bounded -> stored;
/// NeedsExact -> Some only when both bounds are known; UnsafeApproximation -> None
#[kani::proof]
fn result_interval_matches_variant() {
    let x: f64 = kani::any();
    let y: f64 = kani::any();
    kani::assume(!x.is_nan() && !y.is_nan());
    let lo: Option<f64> = if kani::any() { Some(x) } else { None };
    let hi: Option<f64> = if kani::any() { Some(y) } else { None };
    let m = || HybridMetrics::default();
    let e = HybridProbabilityResult::Exact { probability: x, decision: AlertDecision::Alert, reason: HybridReason::ExactSdd, metrics: m() };
    assert!(e.interval() == Some(ProbabilityInterval { lower: x, upper: x }), "Exact{p}.interval() == [p,p]");
    let l = HybridProbabilityResult::LowerBound { lower_bound: x, decision: AlertDecision::Alert, reason: HybridReason::TopKBudget, metrics: m() };
    assert!(l.interval() == Some(ProbabilityInterval { lower: x, upper: 1.0 }), "LowerBound{l}.interval() == [l,1]");
    let b = HybridProbabilityResult::Bounded { interval: ProbabilityInterval { lower: x, upper: y }, decision: AlertDecision::NoAlert, reason: HybridReason::NearThreshold, metrics: m() };
    assert!(b.interval() == Some(ProbabilityInterval { lower: x, upper: y }), "Bounded.interval() is the stored interval");
    let n = HybridProbabilityResult::NeedsExact { lower_bound: lo, upper_bound: hi, reason: HybridReason::SddBudget, metrics: m() };
    match (lo, hi) {
        (Some(a), Some(c)) => assert!(n.interval() == Some(ProbabilityInterval { lower: a, upper: c }), "NeedsExact with both bounds reports them"),
        _ => assert!(n.interval().is_none(), "NeedsExact with a missing bound reports no interval"),
    }
    let u = HybridProbabilityResult::UnsafeApproximation { estimate: x, reason: HybridReason::DiagnosticOnly, metrics: m() };
    assert!(u.interval().is_none(), "UnsafeApproximation never reports an interval");
    kani::cover!(lo.is_some() && hi.is_none(), "reachable: half-known bounds");
}

/// budget exhaustion is mapped to the matching reason, never to a decision-bearing one
#[kani::proof]
fn budget_errors_map_to_budget_reasons() {
    assert!(map_hybrid_budget_error(SddBudgetError::DeadlineExceeded) == HybridReason::SddBudget, "deadline -> SddBudget");
    assert!(map_hybrid_budget_error(SddBudgetError::NodeBudgetExceeded) == HybridReason::SddNodeBudget, "node limit -> SddNodeBudget");
    assert!(matches!(map_compile_budget_error(SddBudgetError::DeadlineExceeded), CompileFailure::Deadline), "deadline -> CompileFailure::Deadline");
    assert!(matches!(map_compile_budget_error(SddBudgetError::NodeBudgetExceeded), CompileFailure::Nodes), "node limit -> CompileFailure::Nodes");
    kani::cover!(true, "reachable");
}

/// seed probabilities are accepted exactly when finite and in [0,1]
#[kani::proof]
fn seed_probability_validation() {
    let p: f64 = kani::any();
    let r = SeedRegistry::validate_probability(p);
    assert!(r.is_ok() == (p.is_finite() && 0.0 <= p && p <= 1.0), "validate_probability accepts exactly finite [0,1]");
    kani::cover!(r.is_ok(), "reachable: ok");
    kani::cover!(r.is_err(), "reachable: err");
}
