// Kani harnesses for C16 (kolibrie/src/parser.rs): the hand-written byte-offset token scanners.
// BOUNDED: inputs are every string within the stated bound (see harness names); this is a bounded
// stand-in, labelled as such, never counted as proved.
//
// Contract checked for every scanner f and every input within the bound:
//   * f(input) does not panic: no slice at a non-boundary, no index out of range, no arithmetic
//     overflow, no failing expect/unwrap (all are compiled assertions that CBMC checks);
//   * Ok((rest, tok)) => tok is non-empty, tok and rest are adjacent sub-slices of input
//     (tok ends exactly where rest starts, rest ends exactly where input ends, tok starts inside input):
//     "acceptance means the token was consumed as a whole".
use super::*;

fn ascii<const N: usize>(buf: &mut [u8; N]) -> &str {
    let len: usize = kani::any();
    kani::assume(len <= N);
    let mut i = 0;
    while i < N {
        let b: u8 = kani::any();
        kani::assume(b < 128);
        buf[i] = b;
        i += 1;
    }
    // SAFETY: every byte is < 128
    unsafe { std::str::from_utf8_unchecked(&buf[..len]) }
}

fn utf8<const N: usize>(buf: &mut [u8; N]) -> Option<&str> {
    let len: usize = kani::any();
    kani::assume(len <= N);
    let mut i = 0;
    while i < N {
        buf[i] = kani::any();
        i += 1;
    }
    std::str::from_utf8(&buf[..len]).ok()
}

/// symbolic choice from a fixed alphabet that contains 1-, 2-, 3- and 4-byte characters
fn from_alphabet<'a, const A: usize, const B: usize>(alpha: &[char; A], buf: &'a mut [u8; B], max_chars: usize) -> &'a str {
    let k: usize = kani::any();
    kani::assume(k <= max_chars);
    let mut len = 0usize;
    let mut i = 0;
    while i < max_chars {
        if i < k {
            let c: usize = kani::any();
            kani::assume(c < A);
            len += alpha[c].encode_utf8(&mut buf[len..]).len();
        }
        i += 1;
    }
    unsafe { std::str::from_utf8_unchecked(&buf[..len]) }
}

fn end(s: &str) -> usize { s.as_ptr() as usize + s.len() }

fn partition_ok(input: &str, r: &IResult<&str, &str>) {
    if let Ok((rest, tok)) = r {
        assert!(!tok.is_empty(), "accepted token is non-empty");
        assert!(end(rest) == end(input), "rest is a suffix of the input");
        assert!(end(tok) == rest.as_ptr() as usize, "token ends exactly where rest starts (whole token consumed)");
        assert!(tok.as_ptr() as usize >= input.as_ptr() as usize, "token starts inside the input");
    }
}

macro_rules! scanner_harness {
    ($name:ident, $f:ident, $gen:ident, $n:expr, $unwind:expr $(, $extra:expr)?) => {
        #[kani::proof]
        #[kani::unwind($unwind)]
        fn $name() {
            let mut buf = [0u8; $n];
            let s = $gen::<$n>(&mut buf);
            let r = $f(s);
            partition_ok(s, &r);
            $( if let Ok((_, tok)) = &r { let chk: fn(&str) = $extra; chk(tok); } )?
            kani::cover!(r.is_ok(), "reachable: an input within the bound is accepted");
            kani::cover!(r.is_err(), "reachable: an input within the bound is rejected");
        }
    };
}

fn iri_shape(tok: &str) { assert!(tok.as_bytes()[0] == b'<' && tok.as_bytes()[tok.len() - 1] == b'>', "an IRI token is <...>"); }
fn var_shape(tok: &str) { assert!(tok.len() >= 2 && (tok.as_bytes()[0] == b'?' || tok.as_bytes()[0] == b'$'), "a variable token is a sigil plus a name"); }
fn bnode_shape(tok: &str) { assert!(tok.len() >= 3 && tok.as_bytes()[0] == b'_' && tok.as_bytes()[1] == b':', "a blank node token is _:label"); }

// ---- ASCII, every string of <= 2 bytes (quick tier) ----
scanner_harness!(variable_ascii2, sparql_variable, ascii, 2, 5, var_shape);
scanner_harness!(iri_ascii2, sparql_iri, ascii, 2, 5, iri_shape);
scanner_harness!(prefixed_name_ascii2, sparql_prefixed_name, ascii, 2, 5);
scanner_harness!(numeric_ascii2, sparql_numeric_literal, ascii, 2, 5);
scanner_harness!(quoted_literal_ascii2, sparql_quoted_literal, ascii, 2, 5);

// ---- ASCII, every string of <= 3 bytes ----
scanner_harness!(variable_ascii3, sparql_variable, ascii, 3, 6, var_shape);
scanner_harness!(iri_ascii3, sparql_iri, ascii, 3, 6, iri_shape);
scanner_harness!(blank_node_ascii3, sparql_blank_node, ascii, 3, 6, bnode_shape);
scanner_harness!(prefixed_name_ascii3, sparql_prefixed_name, ascii, 3, 6);
scanner_harness!(numeric_ascii3, sparql_numeric_literal, ascii, 3, 6);
scanner_harness!(quoted_literal_ascii3, sparql_quoted_literal, ascii, 3, 6);

// ---- ASCII, <= 4 bytes (thorough) ----
scanner_harness!(variable_ascii4, sparql_variable, ascii, 4, 7, var_shape);
scanner_harness!(iri_ascii4, sparql_iri, ascii, 4, 7, iri_shape);
scanner_harness!(numeric_ascii4, sparql_numeric_literal, ascii, 4, 7);

#[kani::proof]
#[kani::unwind(6)]
fn skip_ws_ascii3() {
    let mut buf = [0u8; 3];
    let s = ascii::<3>(&mut buf);
    let r = sparql_skip_ws(s);
    // an exhausted input may be returned as the static "" (comment without newline): that is a suffix too
    assert!(r.is_empty() || end(r) == end(s), "skip_ws returns a suffix of its input");
    assert!(r.len() <= s.len(), "skip_ws never grows the input");
    if !r.is_empty() {
        let b = r.as_bytes()[0];
        assert!(b != b' ' && b != b'\t' && b != b'\n' && b != b'\r' && b != b'#', "after skip_ws the input does not start with whitespace or a comment");
    }
    kani::cover!(r.len() < s.len(), "reachable: something skipped");
}

#[kani::proof]
#[kani::unwind(12)]
fn unicode_escape_len_ascii_fixed() {
    // \uXXXX and \UXXXXXXXX with symbolic hex digits: 10-byte buffer, first two bytes fixed
    let mut buf = [0u8; 10];
    let len: usize = kani::any();
    kani::assume(len <= 10);
    let mut i = 0;
    while i < 10 { let b: u8 = kani::any(); kani::assume(b < 128); buf[i] = b; i += 1; }
    let s = unsafe { std::str::from_utf8_unchecked(&buf[..len]) };
    if let Some(n) = sparql_unicode_escape_len(s) {
        assert!(n == 6 || n == 10, "an escape is 6 or 10 bytes long");
        assert!(n <= s.len(), "the escape lies inside the input");
        assert!(s.as_bytes()[1] == b'u' || s.as_bytes()[1] == b'U', "escape marker");
        assert!((s.as_bytes()[1] == b'u') == (n == 6), "\\u takes 4 digits, \\U takes 8");
        let mut k = 2;
        while k < n { assert!(s.as_bytes()[k].is_ascii_hexdigit(), "every position of an accepted escape is a hexadecimal digit"); k += 1; }
    }
    kani::cover!(sparql_unicode_escape_len(s).is_some(), "reachable: a valid escape");
}

// escapes whose digit window contains multi-byte characters or signs (thorough and quick: the function is small)
const ESC_ALPHA: [char; 8] = ['0', 'F', 'a', '+', 'g', '\u{e9}', '\u{20ac}', '\u{1d11e}'];
#[kani::proof]
#[kani::unwind(12)]
fn unicode_escape_len_alphabet() {
    let mut buf = [0u8; 40];
    buf[0] = b'\\';
    buf[1] = if kani::any() { b'u' } else { b'U' };
    let k: usize = kani::any();
    kani::assume(k <= 8);
    let mut len = 2usize;
    let mut i = 0;
    while i < 8 {
        if i < k {
            let c: usize = kani::any();
            kani::assume(c < 8);
            len += ESC_ALPHA[c].encode_utf8(&mut buf[len..]).len();
        }
        i += 1;
    }
    let s = unsafe { std::str::from_utf8_unchecked(&buf[..len]) };
    let r = sparql_unicode_escape_len(s);
    if let Some(n) = r {
        assert!(n <= s.len() && (n == 6 || n == 10), "the escape lies inside the input");
        let mut j = 2;
        while j < n { assert!(s.as_bytes()[j].is_ascii_hexdigit(), "every position of an accepted escape is a hexadecimal digit"); j += 1; }
    }
    let accepted = r.is_some();
    let rejected_long = !accepted && len > 10;
    kani::cover!(accepted, "reachable: a valid escape");
    kani::cover!(rejected_long, "reachable: a rejected window with multi-byte characters");
}

#[kani::proof]
#[kani::unwind(6)]
fn invalid_pn_prefix_ascii3() {
    let mut buf = [0u8; 3];
    let s = ascii::<3>(&mut buf);
    if let Some(off) = sparql_invalid_pn_prefix(s) {
        assert!(!off.is_empty() && end(off) == end(s), "the offending part is a non-empty suffix of the prefix");
    }
    kani::cover!(sparql_invalid_pn_prefix(s).is_none() && !s.is_empty(), "reachable: a valid prefix");
}

// ---- arbitrary valid UTF-8, <= 3 bytes (thorough) ----
macro_rules! utf8_harness {
    ($name:ident, $f:ident, $n:expr, $unwind:expr) => {
        #[kani::proof]
        #[kani::unwind($unwind)]
        fn $name() {
            let mut buf = [0u8; $n];
            if let Some(s) = utf8::<$n>(&mut buf) {
                let r = $f(s);
                partition_ok(s, &r);
                kani::cover!(r.is_ok(), "reachable: accepted");
            }
        }
    };
}
utf8_harness!(variable_utf8_3, sparql_variable, 3, 12);
utf8_harness!(iri_utf8_3, sparql_iri, 3, 12);
utf8_harness!(blank_node_utf8_3, sparql_blank_node, 3, 12);
utf8_harness!(prefixed_name_utf8_3, sparql_prefixed_name, 3, 12);
utf8_harness!(numeric_utf8_3, sparql_numeric_literal, 3, 12);

// ---- alphabet with multi-byte characters at every offset, <= 3 characters (thorough) ----
const VAR_ALPHA: [char; 8] = ['?', '$', 'a', '_', ' ', '<', 'é', '€'];
#[kani::proof]
#[kani::unwind(12)]
fn variable_alphabet3() {
    let mut buf = [0u8; 12];
    let s = from_alphabet(&VAR_ALPHA, &mut buf, 3);
    let r = sparql_variable(s);
    partition_ok(s, &r);
    kani::cover!(r.is_ok() && s.len() > 3, "reachable: accepted input with a multi-byte character");
}
const IRI_ALPHA: [char; 8] = ['<', '>', 'a', '\\', ' ', 'u', 'é', '𝄞'];
#[kani::proof]
#[kani::unwind(12)]
fn iri_alphabet3() {
    let mut buf = [0u8; 12];
    let s = from_alphabet(&IRI_ALPHA, &mut buf, 3);
    let r = sparql_iri(s);
    partition_ok(s, &r);
    kani::cover!(r.is_ok() && s.len() > 3, "reachable: accepted input with a multi-byte character");
}

// ---- prefixed names against the token grammar (longest match), small ASCII alphabet, every string of <= N symbols ----
// FAITHFULNESS half of C16 for one scanner: the token handed to the syntax tree is exactly the term as written.
const PN_ALPHA: [u8; 8] = [b'p', b':', b'\\', b'(', b'-', b'.', b'1', b' '];

/// Independent recogniser (the specification): length of the longest prefix of `b` that is a prefixed name
/// PNAME_NS PN_LOCAL? of the SPARQL grammar, restricted to the alphabet (p: PN_CHARS_BASE, 1: digit, '-' PN_CHARS,
/// '.' only between other characters, "\(" "\-" "\." escapes); None when `b` does not start with PNAME_NS.
/// The flag reports a backslash that is not an escape right behind the token (the scanner rejects such input).
fn pname_spec(b: &[u8]) -> (Option<usize>, bool) {
    let mut colon = b.len();
    let mut i = 0;
    while i < b.len() { if b[i] == b':' { colon = i; break; } i += 1; }
    if colon == b.len() { return (None, false); }
    // PN_PREFIX ::= PN_CHARS_BASE ((PN_CHARS | '.')* PN_CHARS)?
    if colon > 0 {
        if b[0] != b'p' { return (None, false); }
        let mut j = 1;
        while j < colon {
            let c = b[j];
            let pn_chars = c == b'p' || c == b'1' || c == b'-';
            if !(pn_chars || (c == b'.' && j + 1 < colon)) { return (None, false); }
            j += 1;
        }
    }
    // PN_LOCAL ::= (PN_CHARS_U | ':' | [0-9] | PLX) ((PN_CHARS | '.' | ':' | PLX)* (PN_CHARS | ':' | PLX))?
    let mut j = colon + 1;
    let mut token_end = j;
    let mut first = true;
    let mut bad_escape = false;
    while j < b.len() {
        let c = b[j];
        if c == b'p' || c == b'1' || c == b':' || (c == b'-' && !first) { j += 1; token_end = j; first = false; continue; }
        if c == b'.' && !first { j += 1; continue; }
        if c == b'\\' {
            if j + 1 < b.len() && (b[j + 1] == b'(' || b[j + 1] == b'-' || b[j + 1] == b'.') { j += 2; token_end = j; first = false; continue; }
            bad_escape = true;
        }
        break;
    }
    (Some(token_end), bad_escape)
}

macro_rules! pname_grammar_harness {
    ($name:ident, $n:expr, $unwind:expr) => {
        #[kani::proof]
        #[kani::unwind($unwind)]
        fn $name() {
            let mut buf = [0u8; $n];
            let len: usize = kani::any();
            kani::assume(len <= $n);
            let mut i = 0;
            while i < $n { let c: usize = kani::any(); kani::assume(c < 8); buf[i] = PN_ALPHA[c]; i += 1; }
            // leading white space is sparql_skip_ws's business (own harness)
            kani::assume(len == 0 || buf[0] != b' ');
            let s = unsafe { std::str::from_utf8_unchecked(&buf[..len]) };
            let (want, bad_escape) = pname_spec(&buf[..len]);
            let r = sparql_prefixed_name(s);
            partition_ok(s, &r);
            match (&r, want) {
                (Ok((_, tok)), Some(n)) => assert!(tok.len() == n, "the token is the longest prefix of the input that is a prefixed name of the SPARQL grammar"),
                (Ok(_), None) => assert!(false, "no token is produced when the input does not start with a prefixed name"),
                (Err(_), Some(_)) => assert!(bad_escape, "an input that starts with a prefixed name yields its token"),
                (Err(_), None) => {}
            }
            kani::cover!(r.is_ok() && len == $n, "reachable: an accepted input of full length");
            kani::cover!(bad_escape, "reachable: a dangling backslash");
        }
    };
}
pname_grammar_harness!(prefixed_name_grammar_alphabet4, 4, 7);
pname_grammar_harness!(prefixed_name_grammar_alphabet5, 5, 8);
pname_grammar_harness!(prefixed_name_grammar_alphabet6, 6, 9);
pname_grammar_harness!(prefixed_name_grammar_alphabet7, 7, 10);
