#![feature(allocator_api)]
use vstd::prelude::*;
use std::collections::{HashMap, HashSet};
use std::collections::hash_map::Entry;
verus! {
pub mod trusted {
    use vstd::prelude::*;
    use std::collections::{HashMap, HashSet};
    use std::collections::hash_map::Entry;
    use vstd::std_specs::hash::*;
    pub uninterp spec fn is_default<V>(v: V) -> bool;
    pub broadcast axiom fn axiom_default_hashmap<K, V>(m: HashMap<K, V>)
        ensures #[trigger] is_default(m) ==> m@ == Map::<K, V>::empty();
    pub broadcast axiom fn axiom_default_hashset<K>(m: HashSet<K>)
        ensures #[trigger] is_default(m) ==> m@ == Set::<K>::empty();
    pub assume_specification<'a, K, V: std::default::Default> [ Entry::<'a, K, V>::or_default ] (entry: Entry<'a, K, V>) -> (value: &'a mut V)
        ensures
            match entry.value() { Some(v) => *value == v, None => is_default(*value) },
            entry.final_value() == Some(*final(value)),
    ;
    pub uninterp spec fn borrow_eq<K, Q: ?Sized>(kk: K, k: &Q) -> bool;
    pub broadcast axiom fn axiom_borrow_eq_same<K>(kk: K, k: &K)
        ensures #[trigger] borrow_eq::<K, K>(kk, k) <==> kk == *k;
    pub assume_specification<'a, K: std::cmp::Eq + std::hash::Hash + std::borrow::Borrow<Q>, V, S: std::hash::BuildHasher, A: std::alloc::Allocator, Q: std::hash::Hash + std::cmp::Eq + ?Sized> [std::collections::HashMap::<K,V,S,A>::get_mut::<Q>] (m: &'a mut HashMap<K,V,S,A>, k: &Q) -> (r: Option<&'a mut V>)
        ensures
            obeys_key_model::<K>() && builds_valid_hashers::<S>() ==> (
            match r {
                Some(v) => exists|kk: K| #[trigger] borrow_eq(kk, k) && old(m)@.contains_key(kk) && old(m)@[kk] == *v
                    && final(m)@ == old(m)@.insert(kk, *final(v)),
                None => (forall|kk: K| #[trigger] old(m)@.contains_key(kk) ==> !borrow_eq(kk, k)) && final(m)@ == old(m)@,
            }),
    ;
    pub broadcast axiom fn axiom_graphid_key_model()
        ensures #[trigger] obeys_key_model::<super::GraphId>();
}
use trusted::*;
use vstd::std_specs::hash::*;
broadcast use {vstd::std_specs::hash::group_hash_axioms, trusted::axiom_default_hashmap, trusted::axiom_default_hashset, trusted::axiom_graphid_key_model, trusted::axiom_borrow_eq_same};

#[derive(Clone, Copy, PartialEq, Eq, Hash)]
pub enum GraphId {
    Default,
    Named(u32),
}

pub struct Quad {
    pub subject: u32,
    pub predicate: u32,
    pub object: u32,
    pub graph: GraphId,
}

type NestedIndex = HashMap<u32, HashMap<u32, HashSet<u32>>>;
type GraphNestedIndex = HashMap<GraphId, NestedIndex>;
type SpoGraphIndex = HashMap<u32, HashMap<u32, HashMap<u32, HashSet<GraphId>>>>;

pub struct DatasetIndex {
    pub gspo: GraphNestedIndex,
    pub gpos: GraphNestedIndex,
    pub gosp: GraphNestedIndex,
    pub spog: SpoGraphIndex,
    pub named_graphs: HashSet<u32>,
}

pub open spec fn gn_has(m: GraphNestedIndex, g: GraphId, a: u32, b: u32, c: u32) -> bool {
    m@.contains_key(g) && n_has(m@[g], a, b, c)
}
pub open spec fn spog_has(m: SpoGraphIndex, s: u32, p: u32, o: u32, g: GraphId) -> bool {
    m@.contains_key(s) && m@[s]@.contains_key(p) && m@[s]@[p]@.contains_key(o) && m@[s]@[p]@[o]@.contains(g)
}

pub broadcast proof fn lemma_map_len0_no_keys<K, V>(m: Map<K, V>)
    requires m.dom().finite(), #[trigger] m.len() == 0,
    ensures forall|k: K| !m.contains_key(k),
{
    assert(m.dom().len() == 0);
    assert(m.dom() =~= Set::<K>::empty());
}
pub open spec fn n_has(m: NestedIndex, a: u32, b: u32, c: u32) -> bool {
    m@.contains_key(a) && m@[a]@.contains_key(b) && m@[a]@[b]@.contains(c)
}
fn remove_from_nested_index(index: &mut NestedIndex, key1: u32, key2: u32, value: u32)
    ensures
        forall|x: u32, y: u32, z: u32| #![trigger n_has(*final(index), x,y,z)] #![trigger n_has(*old(index), x,y,z)] n_has(*final(index), x,y,z) == (n_has(*old(index), x,y,z) && !(x == key1 && y == key2 && z == value)),
{
    let ghost idx0 = index@;
    if let Some(inner_map) = index.get_mut(&key1) {
        let ghost in0 = inner_map@;
        if let Some(set) = inner_map.get_mut(&key2) {
            set.remove(&value);
            if set.is_empty() {
                inner_map.remove(&key2);
            }
        }
        assert(forall|y: u32| y != key2 ==> inner_map@.contains_key(y) == in0.contains_key(y));
        assert(forall|y: u32| y != key2 && in0.contains_key(y) ==> inner_map@[y] == in0[y]);
        if inner_map.is_empty() {
            assert(forall|y: u32| !inner_map@.contains_key(y));
            index.remove(&key1);
        }
    }
}

fn remove_from_graph_index(
    index: &mut GraphNestedIndex,
    graph: GraphId,
    key1: u32,
    key2: u32,
    value: u32,
)
    ensures
        forall|g: GraphId, x: u32, y: u32, z: u32| #[trigger] gn_has(*final(index), g, x,y,z) == (gn_has(*old(index), g, x,y,z) && !(g == graph && x == key1 && y == key2 && z == value)),
        forall|g: GraphId| #[trigger] final(index)@.contains_key(g) ==> old(index)@.contains_key(g),
{
    broadcast use lemma_map_len0_no_keys;
    let remove_graph = if let Some(nested) = index.get_mut(&graph) {
        remove_from_nested_index(nested, key1, key2, value);
        nested.is_empty()
    } else {
        false
    };
    if remove_graph {
        index.remove(&graph);
    }
}

pub open spec fn po_has(m: HashMap<u32, HashMap<u32, HashSet<GraphId>>>, p: u32, o: u32, g: GraphId) -> bool {
    m@.contains_key(p) && m@[p]@.contains_key(o) && m@[p]@[o]@.contains(g)
}
fn remove_from_spog(index: &mut SpoGraphIndex, s: u32, p: u32, o: u32, graph: GraphId)
    ensures
        forall|s1: u32, p1: u32, o1: u32, g1: GraphId| #![trigger spog_has(*final(index), s1,p1,o1,g1)] #![trigger spog_has(*old(index), s1,p1,o1,g1)]
            spog_has(*final(index), s1,p1,o1,g1) == (spog_has(*old(index), s1,p1,o1,g1) && !(s1 == s && p1 == p && o1 == o && g1 == graph)),
{
    if let Some(pred_map) = index.get_mut(&s) {
        let ghost pm0 = pred_map@;
        if let Some(obj_map) = pred_map.get_mut(&p) {
            let ghost om0 = obj_map@;
            if let Some(graphs) = obj_map.get_mut(&o) {
                graphs.remove(&graph);
                if graphs.is_empty() {
                    obj_map.remove(&o);
                }
            }
            assert(forall|y: u32| y != o ==> obj_map@.contains_key(y) == om0.contains_key(y));
            assert(forall|y: u32| y != o && om0.contains_key(y) ==> obj_map@[y] == om0[y]);
            if obj_map.is_empty() {
                assert(forall|y: u32| !obj_map@.contains_key(y));
                pred_map.remove(&p);
            }
        }
        assert(forall|y: u32| y != p ==> pred_map@.contains_key(y) == pm0.contains_key(y));
        assert(forall|y: u32| y != p && pm0.contains_key(y) ==> pred_map@[y] == pm0[y]);
        if pred_map.is_empty() {
            assert(forall|y: u32| !pred_map@.contains_key(y));
            index.remove(&s);
        }
    }
}

impl DatasetIndex {
    pub closed spec fn has(&self, s: u32, p: u32, o: u32, g: GraphId) -> bool { spog_has(self.spog, s, p, o, g) }
    pub closed spec fn wf(&self) -> bool {
        &&& forall|s: u32, p: u32, o: u32, g: GraphId| #![trigger spog_has(self.spog, s, p, o, g)] #![trigger gn_has(self.gspo, g, s, p, o)]
                spog_has(self.spog, s, p, o, g) == gn_has(self.gspo, g, s, p, o)
        &&& forall|s: u32, p: u32, o: u32, g: GraphId| #![trigger spog_has(self.spog, s, p, o, g)] #![trigger gn_has(self.gpos, g, p, o, s)]
                spog_has(self.spog, s, p, o, g) == gn_has(self.gpos, g, p, o, s)
        &&& forall|s: u32, p: u32, o: u32, g: GraphId| #![trigger spog_has(self.spog, s, p, o, g)] #![trigger gn_has(self.gosp, g, o, s, p)]
                spog_has(self.spog, s, p, o, g) == gn_has(self.gosp, g, o, s, p)
    }

    pub closed spec fn graph_set(&self, g: u32) -> bool {
        self.named_graphs@.contains(g) || self.gspo@.contains_key(GraphId::Named(g))
    }

    pub fn graph_exists(&self, graph: GraphId) -> (r: bool)
        ensures r == (graph == GraphId::Default || (graph matches GraphId::Named(g) && self.graph_set(g)))
    {
        match graph {
            GraphId::Default => true,
            GraphId::Named(graph) => {
                self.named_graphs.contains(&graph)
                    // Non-empty graphs in indexes serialized before the graph
                    // catalog was added remain discoverable.
                    || self.gspo.contains_key(&GraphId::Named(graph))
            }
        }
    }

    pub fn create_graph(&mut self, graph: GraphId) -> (r: bool)
        requires old(self).wf(),
        ensures final(self).wf(),
            r == (graph matches GraphId::Named(g) && !old(self).graph_set(g)),
            forall|g: u32| final(self).graph_set(g) == (old(self).graph_set(g) || graph == GraphId::Named(g)),
            forall|s: u32, p: u32, o: u32, g: GraphId| final(self).has(s,p,o,g) == old(self).has(s,p,o,g),
    {
        match graph {
            GraphId::Default => false,
            GraphId::Named(graph) => {
                let existed = self.graph_exists(GraphId::Named(graph));
                self.named_graphs.insert(graph);
                !existed
            }
        }
    }

    #[verifier::external_body]
    pub fn query_graph(&self, graph: GraphId, s: Option<u32>, p: Option<u32>, o: Option<u32>) -> (r: Vec<Quad>)
        ensures
            s.is_none() && p.is_none() && o.is_none() ==> {
                &&& forall|i: int| 0 <= i < r.len() ==> (#[trigger] r[i]).graph == graph && self.has(r[i].subject, r[i].predicate, r[i].object, graph)
                &&& forall|s1: u32, p1: u32, o1: u32| #[trigger] self.has(s1, p1, o1, graph) ==> exists|i: int| 0 <= i < r.len() && r[i].subject == s1 && r[i].predicate == p1 && r[i].object == o1
            }
    { unimplemented!() }

    pub fn clear_graph(&mut self, graph: GraphId)
        requires old(self).wf(),
        ensures final(self).wf(),
            forall|s: u32, p: u32, o: u32, g: GraphId| final(self).has(s,p,o,g) == (old(self).has(s,p,o,g) && g != graph),
            forall|g: u32| final(self).graph_set(g) ==> old(self).graph_set(g),
    {
        // Clearing a named graph retains its identity, including for an old
        // deserialized index whose catalog is populated lazily.
        if let GraphId::Named(graph_id) = graph {
            if self.graph_exists(graph) {
                self.named_graphs.insert(graph_id);
            }
        }

        let quads = self.query_graph(graph, None, None, None);
        let ghost qs = quads@;
        let ghost mid = *self;
        assert(forall|s: u32, p: u32, o: u32, g: GraphId| mid.has(s,p,o,g) == old(self).has(s,p,o,g));
        assert(forall|g: u32| mid.graph_set(g) ==> old(self).graph_set(g));
        assert(qs.len() > 0 ==> mid.has(qs[0].subject, qs[0].predicate, qs[0].object, graph));
        assert(qs.len() > 0 ==> mid.gspo@.contains_key(graph));
        for quad in it: quads
            invariant
                self.wf(),
                it.seq() == qs,
                qs.len() > 0 ==> mid.gspo@.contains_key(graph),
                forall|g: u32| mid.graph_set(g) ==> old(self).graph_set(g),
                forall|s: u32, p: u32, o: u32, g: GraphId| mid.has(s,p,o,g) == old(self).has(s,p,o,g),
                forall|i: int| 0 <= i < qs.len() ==> (#[trigger] qs[i]).graph == graph,
                forall|s: u32, p: u32, o: u32, g: GraphId| g != graph ==> self.has(s,p,o,g) == mid.has(s,p,o,g),
                forall|s: u32, p: u32, o: u32| #[trigger] self.has(s,p,o,graph) ==> mid.has(s,p,o,graph) && exists|i: int| it.index@ <= i < qs.len() && qs[i].subject == s && qs[i].predicate == p && qs[i].object == o,
                forall|g: u32| self.graph_set(g) ==> mid.graph_set(g) || (GraphId::Named(g) == graph && qs.len() > 0),
        {
            self.delete_quad(&quad);
        }
        assert(forall|s: u32, p: u32, o: u32| !self.has(s,p,o,graph));
        assert(forall|s: u32, p: u32, o: u32, g: GraphId| g != graph ==> self.has(s,p,o,g) == old(self).has(s,p,o,g));
        assert forall|g: u32| self.graph_set(g) implies old(self).graph_set(g) by {
            if !mid.graph_set(g) {
                assert(GraphId::Named(g) == graph && qs.len() > 0);
                assert(mid.gspo@.contains_key(GraphId::Named(g)));
                assert(mid.graph_set(g));
            }
        }
    }

    #[verifier::external_body]
    pub fn contains_quad(&self, quad: &Quad) -> (r: bool)
        ensures r == self.has(quad.subject, quad.predicate, quad.object, quad.graph)
    { unimplemented!() }

    pub fn delete_quad(&mut self, quad: &Quad) -> (r: bool)
        requires old(self).wf(),
        ensures
            final(self).wf(),
            r == old(self).has(quad.subject, quad.predicate, quad.object, quad.graph),
            forall|s: u32, p: u32, o: u32, g: GraphId| final(self).has(s,p,o,g) == (old(self).has(s,p,o,g) && !(s == quad.subject && p == quad.predicate && o == quad.object && g == quad.graph)),
            forall|g: u32| #[trigger] final(self).graph_set(g) ==> old(self).graph_set(g) || quad.graph == GraphId::Named(g),
            forall|g: u32| old(self).graph_set(g) && old(self).named_graphs@.contains(g) ==> final(self).graph_set(g),
    {
        if !self.contains_quad(quad) {
            return false;
        }

        if let GraphId::Named(graph) = quad.graph {
            // Materialize graph identity before deleting the last quad from an
            // index deserialized from the pre-catalog representation.
            self.named_graphs.insert(graph);
        }

        let Quad {
            subject: s,
            predicate: p,
            object: o,
            graph: g,
        } = *quad;

        remove_from_graph_index(&mut self.gspo, g, s, p, o);
        remove_from_graph_index(&mut self.gpos, g, p, o, s);
        remove_from_graph_index(&mut self.gosp, g, o, s, p);
        remove_from_spog(&mut self.spog, s, p, o, g);
        true
    }

    pub fn insert_quad(&mut self, quad: &Quad) -> (r: bool)
        requires old(self).wf(),
        ensures
            !r ==> final(self).spog == old(self).spog && final(self).gspo == old(self).gspo && final(self).gpos == old(self).gpos && final(self).gosp == old(self).gosp,
            forall|s: u32, p: u32, o: u32, g: GraphId| r ==> (#[trigger] gn_has(final(self).gspo, g, s, p, o) == (gn_has(old(self).gspo, g, s, p, o) || (s == quad.subject && p == quad.predicate && o == quad.object && g == quad.graph))),
            forall|s: u32, p: u32, o: u32, g: GraphId| r ==> (#[trigger] gn_has(final(self).gpos, g, p, o, s) == (gn_has(old(self).gpos, g, p, o, s) || (s == quad.subject && p == quad.predicate && o == quad.object && g == quad.graph))),
            forall|s: u32, p: u32, o: u32, g: GraphId| r ==> (#[trigger] gn_has(final(self).gosp, g, o, s, p) == (gn_has(old(self).gosp, g, o, s, p) || (s == quad.subject && p == quad.predicate && o == quad.object && g == quad.graph))),
            forall|s: u32, p: u32, o: u32, g: GraphId| r ==> (#[trigger] spog_has(final(self).spog, s, p, o, g) == (spog_has(old(self).spog, s, p, o, g) || (s == quad.subject && p == quad.predicate && o == quad.object && g == quad.graph))),
            final(self).wf(),
            r == !old(self).has(quad.subject, quad.predicate, quad.object, quad.graph),
            forall|s: u32, p: u32, o: u32, g: GraphId| final(self).has(s,p,o,g) == (old(self).has(s,p,o,g) || (s == quad.subject && p == quad.predicate && o == quad.object && g == quad.graph)),
    {
        if let GraphId::Named(graph) = quad.graph {
            self.named_graphs.insert(graph);
        }

        if self.contains_quad(quad) {
            return false;
        }

        let Quad {
            subject: s,
            predicate: p,
            object: o,
            graph: g,
        } = *quad;

        self.gspo
            .entry(g)
            .or_default()
            .entry(s)
            .or_default()
            .entry(p)
            .or_default()
            .insert(o);
        self.gpos
            .entry(g)
            .or_default()
            .entry(p)
            .or_default()
            .entry(o)
            .or_default()
            .insert(s);
        self.gosp
            .entry(g)
            .or_default()
            .entry(o)
            .or_default()
            .entry(s)
            .or_default()
            .insert(p);
        self.spog
            .entry(s)
            .or_default()
            .entry(p)
            .or_default()
            .entry(o)
            .or_default()
            .insert(g);
        proof {
            assert(forall|s: u32, p: u32, o: u32, g: GraphId| (#[trigger] gn_has(self.gspo, g, s, p, o) == (gn_has(old(self).gspo, g, s, p, o) || (s == quad.subject && p == quad.predicate && o == quad.object && g == quad.graph))));
            assert(forall|s: u32, p: u32, o: u32, g: GraphId| (#[trigger] gn_has(self.gpos, g, p, o, s) == (gn_has(old(self).gpos, g, p, o, s) || (s == quad.subject && p == quad.predicate && o == quad.object && g == quad.graph))));
            assert(forall|s: u32, p: u32, o: u32, g: GraphId| (#[trigger] gn_has(self.gosp, g, o, s, p) == (gn_has(old(self).gosp, g, o, s, p) || (s == quad.subject && p == quad.predicate && o == quad.object && g == quad.graph))));
            assert(forall|s: u32, p: u32, o: u32, g: GraphId| (#[trigger] spog_has(self.spog, s, p, o, g) == (spog_has(old(self).spog, s, p, o, g) || (s == quad.subject && p == quad.predicate && o == quad.object && g == quad.graph))));
        }
        true
    }
}
}
fn main() {}
