use vstd::prelude::*;
use std::collections::HashMap;
verus! {
use vstd::std_specs::hash::*;
broadcast use vstd::std_specs::hash::group_hash_axioms;
pub struct Dictionary { pub string_to_id: HashMap<String, u32>, pub id_to_string: HashMap<u32, String>, pub next_id: u32 }
pub struct QuotedTripleStore { pub id_to_components: HashMap<u32, (u32, u32, u32)>, pub components_to_id: HashMap<(u32, u32, u32), u32>, pub next_qt_id: u32 }
#[verifier::external_body]
pub fn is_quoted_triple_id(id: u32) -> (r: bool) ensures r == (id >= 0x8000_0000u32) { unimplemented!() }
impl Dictionary {
    #[verifier::external_body]
    pub fn encode(&mut self, value: &str) -> u32 { unimplemented!() }
    #[verifier::external_body]
    pub fn decode(&self, id: u32) -> Option<&str> { unimplemented!() }
}
impl QuotedTripleStore {
    #[verifier::external_body]
    pub fn encode(&mut self, subject: u32, predicate: u32, object: u32) -> u32 { unimplemented!() }
    #[verifier::external_body]
    pub fn decode(&self, id: u32) -> Option<(u32, u32, u32)> { unimplemented!() }
}

fn reencode_term_id(
    id: u32,
    source_dictionary: &Dictionary,
    source_quoted_triples: &QuotedTripleStore,
    target_dictionary: &mut Dictionary,
    target_quoted_triples: &mut QuotedTripleStore,
    translated_ids: &mut HashMap<u32, u32>,
) -> u32
    decreases id  // placeholder
{
    if let Some(translated) = translated_ids.get(&id) {
        return *translated;
    }

    let translated = if is_quoted_triple_id(id) {
        let (subject, predicate, object) = source_quoted_triples
            .decode(id)
            .unwrap();
        let subject = reencode_term_id(
            subject,
            source_dictionary,
            source_quoted_triples,
            target_dictionary,
            target_quoted_triples,
            translated_ids,
        );
        let predicate = reencode_term_id(
            predicate,
            source_dictionary,
            source_quoted_triples,
            target_dictionary,
            target_quoted_triples,
            translated_ids,
        );
        let object = reencode_term_id(
            object,
            source_dictionary,
            source_quoted_triples,
            target_dictionary,
            target_quoted_triples,
            translated_ids,
        );
        target_quoted_triples.encode(subject, predicate, object)
    } else {
        let lexical = source_dictionary
            .decode(id)
            .unwrap();
        target_dictionary.encode(lexical)
    };

    translated_ids.insert(id, translated);
    translated
}
}
fn main() {}
