use vstd::prelude::*;
use std::collections::{HashMap, HashSet};
verus! {
use vstd::std_specs::hash::*;
broadcast use vstd::std_specs::hash::group_hash_axioms;

pub assume_specification<T, F: FnOnce(T) -> bool> [ std::option::Option::<T>::is_some_and ] (o: Option<T>, f: F) -> (r: bool)
    requires o.is_some() ==> f.requires((o.unwrap(),)),
    ensures o.is_none() ==> !r, o.is_some() ==> f.ensures((o.unwrap(),), r),
;

pub struct Q { pub s: u32, pub p: u32, pub o: u32, pub g: u32 }
pub struct Idx { pub spog: HashMap<u32, HashMap<u32, HashMap<u32, HashSet<u32>>>> }
impl Idx {
    pub open spec fn has(&self, q: Q) -> bool {
        self.spog@.contains_key(q.s) && self.spog@[q.s]@.contains_key(q.p) && self.spog@[q.s]@[q.p]@.contains_key(q.o) && self.spog@[q.s]@[q.p]@[q.o]@.contains(q.g)
    }
    pub fn contains_quad(&self, quad: &Q) -> (r: bool)
        ensures r == self.has(*quad)
    {
        self.spog
            .get(&quad.s)
            .and_then(|pred_map| pred_map.get(&quad.p))
            .and_then(|obj_map| obj_map.get(&quad.o))
            .is_some_and(|graphs| graphs.contains(&quad.g))
    }
}
}
fn main() {}
