// Design-time probe: Kani 0.68 on this toolchain cannot analyse std::collections::HashMap.
// Result: "36 of 6457 failed (5953 undetermined)", unsupported construct getrandom/futex reachable,
// hashbrown RawTableInner pointer checks FAIL. Mounted as `#[cfg(kani)] mod` in crate `shared`,
// run with `cargo kani -Z stubbing --harness hm_basic`.
use std::collections::HashMap;
pub fn stub_rs_new() -> std::hash::RandomState { unsafe { std::mem::transmute::<[u64;2], std::hash::RandomState>([0u64,0u64]) } }
pub fn stub_finish(_h: &std::hash::DefaultHasher) -> u64 { 0 }

#[kani::proof]
#[kani::stub(<std::hash::DefaultHasher as std::hash::Hasher>::finish, stub_finish)]
#[kani::stub(std::hash::RandomState::new, stub_rs_new)]
#[kani::unwind(20)]
fn hm_basic() {
    let mut m: HashMap<u32,u32> = HashMap::new();
    let k: u32 = kani::any(); let v: u32 = kani::any();
    m.insert(k, v);
    assert!(m.get(&k) == Some(&v));
    let k2: u32 = kani::any();
    kani::assume(k2 != k);
    assert!(m.get(&k2).is_none());
}
