use vstd::prelude::*;
use std::collections::HashMap;
verus! {
use vstd::std_specs::hash::*;
pub mod trusted {
    use vstd::prelude::*;
    use vstd::std_specs::hash::*;
    pub broadcast axiom fn axiom_string_obeys_key_model()
        ensures #[trigger] obeys_key_model::<String>();
}
broadcast use {vstd::std_specs::hash::group_hash_axioms, trusted::axiom_string_obeys_key_model};

pub struct Dictionary {
    pub string_to_id: HashMap<String, u32>,
    pub id_to_string: HashMap<u32, String>,
    pub next_id: u32,
}
impl Dictionary {
    pub fn merge(&mut self, other: &Dictionary)
        ensures
            forall|k: String| old(self).string_to_id@.contains_key(k) ==> final(self).string_to_id@.contains_key(k) && final(self).string_to_id@[k] == old(self).string_to_id@[k],
            forall|i: u32| old(self).id_to_string@.contains_key(i) ==> final(self).id_to_string@.contains_key(i) && final(self).id_to_string@[i] == old(self).id_to_string@[i],
            final(self).next_id >= old(self).next_id && final(self).next_id >= other.next_id,
    {
        for (key, value) in it: other.string_to_id.iter()
            invariant
                forall|k: String| old(self).string_to_id@.contains_key(k) ==> self.string_to_id@.contains_key(k) && self.string_to_id@[k] == old(self).string_to_id@[k],
                self.id_to_string == old(self).id_to_string, self.next_id == old(self).next_id,
        {
            self.string_to_id.entry(key.clone()).or_insert(*value);
        }
        for (key, value) in it2: other.id_to_string.iter()
            invariant
                forall|k: String| old(self).string_to_id@.contains_key(k) ==> self.string_to_id@.contains_key(k) && self.string_to_id@[k] == old(self).string_to_id@[k],
                forall|i: u32| old(self).id_to_string@.contains_key(i) ==> self.id_to_string@.contains_key(i) && self.id_to_string@[i] == old(self).id_to_string@[i],
                self.next_id == old(self).next_id,
        {
            self.id_to_string.entry(*key).or_insert(value.clone());
        }
        self.next_id = self.next_id.max(other.next_id);
    }
}
}
fn main() {}
