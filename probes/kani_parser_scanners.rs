use super::*;

fn any_str<const N: usize>(buf: &mut [u8; N]) -> Option<&str> {
    let len: usize = kani::any();
    kani::assume(len <= N);
    for i in 0..N { buf[i] = kani::any(); }
    std::str::from_utf8(&buf[..len]).ok()
}

#[kani::proof]
#[kani::unwind(8)]
fn iri_total_4() {
    let mut buf = [0u8; 4];
    if let Some(s) = any_str::<4>(&mut buf) {
        match sparql_iri(s) {
            Ok((rest, tok)) => {
                // token + rest partition the ws-skipped input
                assert!(s.ends_with(rest));
                assert!(tok.starts_with('<') && tok.ends_with('>'));
                assert!(tok.len() + rest.len() <= s.len());
            }
            Err(_) => {}
        }
    }
}

fn any_ascii<const N: usize>(buf: &mut [u8; N]) -> &str {
    let len: usize = kani::any();
    kani::assume(len <= N);
    for i in 0..N { let b: u8 = kani::any(); kani::assume(b < 128); buf[i] = b; }
    unsafe { std::str::from_utf8_unchecked(&buf[..len]) }
}

#[kani::proof]
#[kani::unwind(6)]
fn numeric_ascii_3() {
    let mut buf = [0u8; 3];
    let s = any_ascii::<3>(&mut buf);
    match sparql_numeric_literal(s) {
        Ok((rest, tok)) => {
            assert!(tok.len() + rest.len() <= s.len());
            assert!(!tok.is_empty());
            assert!(s.ends_with(rest));
        }
        Err(_) => {}
    }
}

#[kani::proof]
#[kani::unwind(6)]
fn iri_ascii_3() {
    let mut buf = [0u8; 3];
    let s = any_ascii::<3>(&mut buf);
    match sparql_iri(s) {
        Ok((rest, tok)) => {
            assert!(tok.len() + rest.len() <= s.len());
            assert!(tok.starts_with('<') && tok.ends_with('>'));
        }
        Err(_) => {}
    }
}

const ALPHA: [char; 8] = ['?', '$', 'a', '_', ' ', '<', 'é', '€'];
fn sel_str<'a>(buf: &'a mut [u8; 12], n: usize) -> &'a str {
    let mut len = 0usize;
    let k: usize = kani::any();
    kani::assume(k <= n);
    let mut i = 0;
    while i < n {
        if i < k {
            let c: usize = kani::any();
            kani::assume(c < 8);
            let ch = ALPHA[c];
            let w = ch.encode_utf8(&mut buf[len..]).len();
            len += w;
        }
        i += 1;
    }
    unsafe { std::str::from_utf8_unchecked(&buf[..len]) }
}

#[kani::proof]
#[kani::unwind(6)]
fn variable_alpha_3() {
    let mut buf = [0u8; 12];
    let s = sel_str(&mut buf, 3);
    match sparql_variable(s) {
        Ok((rest, tok)) => {
            assert!(tok.len() + rest.len() <= s.len());
            assert!(tok.len() >= 2);
            assert!(s.ends_with(rest));
        }
        Err(_) => {}
    }
}
