use vstd::prelude::*;
use std::collections::HashMap;
verus! {
#[verifier::external_body]
pub struct SparqlDatabase { _p: u8 }
#[verifier::external_body]
pub struct SelectQuery<'a> { _p: &'a u8 }
#[verifier::external_body]
pub struct UpdateOperation<'a> { _p: &'a u8 }
pub enum SparqlOperation<'a> { Select(SelectQuery<'a>), Update(UpdateOperation<'a>) }
#[verifier::external_body]
pub struct CombinedQueryRest { _p: u8 }
pub struct CombinedQuery<'a> { pub sparql: Option<SparqlOperation<'a>>, pub rest: CombinedQueryRest }

pub uninterp spec fn quads(db: SparqlDatabase) -> Set<(u32,u32,u32,u32)>;

#[verifier::external_body]
fn parse_request(input: &str, allow_data_aliases: bool) -> Result<CombinedQuery<'_>, String> { unimplemented!() }
#[verifier::external_body]
fn prepare_extensions(combined: &CombinedQuery<'_>, database: &mut SparqlDatabase) -> (r: Result<HashMap<String, String>, String>)
    ensures quads(*final(database)) == quads(*old(database)) { unimplemented!() }
#[verifier::external_body]
fn execute_select(query: &SelectQuery<'_>, prefixes: &HashMap<String, String>, database: &mut SparqlDatabase) -> (r: Result<Vec<Vec<String>>, String>)
    ensures quads(*final(database)) == quads(*old(database)) { unimplemented!() }

pub fn execute_sparql_query(
    sparql: &str,
    database: &mut SparqlDatabase,
) -> (r: Result<Vec<Vec<String>>, String>)
    ensures quads(*final(database)) == quads(*old(database))
{
    let combined = parse_request(sparql, false)?;
    match combined.sparql.as_ref() {
        Some(SparqlOperation::Update(_)) => {
            Err("expected a SPARQL query, found an Update operation".to_string())
        }
        Some(SparqlOperation::Select(query)) => {
            let prefixes = prepare_extensions(&combined, database)?;
            execute_select(query, &prefixes, database)
        }
        None => {
            prepare_extensions(&combined, database)?;
            Ok(Vec::new())
        }
    }
}
}
fn main() {}
