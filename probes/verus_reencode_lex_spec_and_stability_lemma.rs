use vstd::prelude::*;
use std::collections::HashMap;
verus! {
use vstd::std_specs::hash::*;

pub struct Dictionary { pub string_to_id: HashMap<String, u32>, pub id_to_string: HashMap<u32, String>, pub next_id: u32 }
pub struct QuotedTripleStore { pub id_to_components: HashMap<u32, (u32, u32, u32)>, pub components_to_id: HashMap<(u32, u32, u32), u32>, pub next_qt_id: u32 }

pub enum Lex { Leaf(Seq<char>), Quoted(Box<Lex>, Box<Lex>, Box<Lex>) }

pub open spec fn qt_ok(q: QuotedTripleStore) -> bool {
    forall|id: u32| #[trigger] q.id_to_components@.contains_key(id) ==> id >= 0x8000_0000u32
}

// lexical tree of an id, None if dangling or not well-founded
pub open spec fn lex(d: Dictionary, q: QuotedTripleStore, id: u32) -> Option<Lex>
    decreases id
{
    if id >= 0x8000_0000u32 {
        if q.id_to_components@.contains_key(id) {
            let c = q.id_to_components@[id];
            if c.0 < id && c.1 < id && c.2 < id {
                match (lex(d, q, c.0), lex(d, q, c.1), lex(d, q, c.2)) {
                    (Some(a), Some(b), Some(e)) => Some(Lex::Quoted(Box::new(a), Box::new(b), Box::new(e))),
                    _ => None,
                }
            } else { None }
        } else { None }
    } else {
        if d.id_to_string@.contains_key(id) { Some(Lex::Leaf(d.id_to_string@[id]@)) } else { None }
    }
}

// target extension relation: all old ids keep their meaning
pub open spec fn extends(d0: Dictionary, q0: QuotedTripleStore, d1: Dictionary, q1: QuotedTripleStore) -> bool {
    &&& forall|i: u32| #[trigger] d0.id_to_string@.contains_key(i) ==> d1.id_to_string@.contains_key(i) && d1.id_to_string@[i] == d0.id_to_string@[i]
    &&& forall|i: u32| #[trigger] q0.id_to_components@.contains_key(i) ==> q1.id_to_components@.contains_key(i) && q1.id_to_components@[i] == q0.id_to_components@[i]
}

pub proof fn lemma_lex_stable(d0: Dictionary, q0: QuotedTripleStore, d1: Dictionary, q1: QuotedTripleStore, id: u32)
    requires extends(d0, q0, d1, q1), lex(d0, q0, id).is_some(),
    ensures lex(d1, q1, id) == lex(d0, q0, id),
    decreases id
{
    if id >= 0x8000_0000u32 {
        let c = q0.id_to_components@[id];
        lemma_lex_stable(d0, q0, d1, q1, c.0);
        lemma_lex_stable(d0, q0, d1, q1, c.1);
        lemma_lex_stable(d0, q0, d1, q1, c.2);
    }
}

pub proof fn lemma_extends_trans(d0: Dictionary, q0: QuotedTripleStore, d1: Dictionary, q1: QuotedTripleStore, d2: Dictionary, q2: QuotedTripleStore)
    requires extends(d0,q0,d1,q1), extends(d1,q1,d2,q2) ensures extends(d0,q0,d2,q2) {}
}
fn main() {}
