use kolibrie::sparql_database::SparqlDatabase;

fn lexical(db: &SparqlDatabase) -> Vec<(String,String,String)> {
    let mut v: Vec<_> = db.dataset_index.all_quads().into_iter().map(|q| (
        db.decode_any(q.subject).unwrap_or_default(),
        db.decode_any(q.predicate).unwrap_or_default(),
        db.decode_any(q.object).unwrap_or_default())).collect();
    v.sort();
    v
}

#[test]
fn n3_into_prepopulated_db() {
    let mut db = SparqlDatabase::new();
    db.add_triple_parts("http://ex/a", "http://ex/p", "http://ex/b");
    let before = lexical(&db);
    db.parse_n3("<http://ex/x> <http://ex/q> <http://ex/y> .\n");
    let after = lexical(&db);
    println!("before={:?}\nafter={:?}", before, after);
    let mut expected = before.clone();
    expected.push(("http://ex/x".into(), "http://ex/q".into(), "http://ex/y".into()));
    expected.sort();
    assert_eq!(after, expected);
}

#[test]
fn dictionary_merge_clash() {
    use shared::dictionary::Dictionary;
    let mut a = Dictionary::new(); a.encode("a");
    let mut b = Dictionary::new(); b.encode("b");
    a.merge(&b);
    println!("decode(0)={:?} encode(b)={}", a.decode(0).map(|s| s.to_string()), a.clone().encode("b"));
    let id_b = a.encode("b");
    assert_eq!(a.decode(id_b), Some("b"));
}
