use vstd::prelude::*;
use std::collections::HashMap;
verus! {
pub struct Dictionary {
    pub string_to_id: HashMap<String, u32>,
    pub id_to_string: HashMap<u32, String>,
    pub next_id: u32,
}
impl Dictionary {
    pub fn merge(&mut self, other: &Dictionary) {
        for (key, value) in other.string_to_id.iter() {
            self.string_to_id.entry(key.clone()).or_insert(*value);
        }
        for (key, value) in other.id_to_string.iter() {
            self.id_to_string.entry(*key).or_insert(value.clone());
        }
        self.next_id = self.next_id.max(other.next_id);
    }
}
}
fn main() {}
