use vstd::prelude::*;
verus! {
#[verifier::external_body]
fn to_f(x: usize) -> (r: f64) { x as f64 }
#[verifier::external_body]
fn to_u(x: f64) -> (r: usize) { x as usize }
fn scope_arith(event_time: usize, t_0: usize, slide: usize, width: usize) -> (r: (usize, usize))
{
    let c_sup = ((to_f(event_time) - to_f(t_0)).abs() / (to_f(slide))).ceil() * to_f(slide);
    let mut o_i = c_sup - to_f(width);
    let open = to_u(o_i);
    let close = to_u(o_i + to_f(width));
    o_i += to_f(slide);
    if o_i > to_f(event_time) { (open, close) } else { (0, 0) }
}
}
fn main() {}
