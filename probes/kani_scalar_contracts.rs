use crate::provenance::{Provenance, MinMaxProbability, BooleanProvenance};
use crate::hybrid::{ProbabilityInterval, HybridConfig};
use crate::sdd::{SddOperationBudget, SddBudgetError};

fn prob() -> f64 { let x: f64 = kani::any(); kani::assume(x >= 0.0 && x <= 1.0); x }

#[kani::proof]
fn minmax_laws() {
    let p = MinMaxProbability;
    let a = prob(); let b = prob(); let c = prob();
    assert!(p.disjunction(&a,&b) == if a >= b { a } else { b });
    assert!(p.conjunction(&a,&b) == if a <= b { a } else { b });
    assert!(p.disjunction(&a,&p.zero()) == a);
    assert!(p.conjunction(&a,&p.one()) == a);
    assert!(p.conjunction(&a,&p.disjunction(&b,&c)) == p.disjunction(&p.conjunction(&a,&b), &p.conjunction(&a,&c)));
    let t = p.tag_from_probability(a);
    assert!(p.recover_probability(&t) == a);
}

#[kani::proof]
fn interval_new_contract() {
    let l: f64 = kani::any(); let u: f64 = kani::any();
    match ProbabilityInterval::new(l,u) {
        Ok(i) => { assert!(0.0 <= l && l <= u && u <= 1.0); assert!(i.lower == l && i.upper == u); assert!(i.contains(l) && i.contains(u)); assert!(i.width() >= 0.0 && i.width() <= 1.0); }
        Err(_) => { assert!(!(0.0 <= l && l <= u && u <= 1.0)); }
    }
}

#[kani::proof]
fn budget_guard_contract() {
    let avail: bool = kani::any();
    let mut calls = 0u32;
    let mut f = || { calls += 1; avail };
    let max_nodes: usize = kani::any(); let cur: usize = kani::any();
    let mut b = SddOperationBudget::new(max_nodes, &mut f);
    let r = b.before_allocation(cur);
    if !avail { assert!(r == Err(SddBudgetError::DeadlineExceeded)); }
    else if cur >= max_nodes { assert!(r == Err(SddBudgetError::NodeBudgetExceeded)); }
    else { assert!(r == Ok(())); }
}
