use vstd::prelude::*;
verus! {
fn scope_arith(event_time: usize, t_0: usize, slide: usize, width: usize) -> (r: (usize, usize))
{
    let c_sup = ((event_time as f64 - t_0 as f64).abs() / (slide as f64)).ceil() * slide as f64;
    let mut o_i = c_sup - width as f64;
    let open = o_i as usize;
    let close = (o_i + width as f64) as usize;
    o_i += slide as f64;
    if o_i > event_time as f64 { (open, close) } else { (0, 0) }
}
}
fn main() {}
