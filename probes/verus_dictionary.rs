use vstd::prelude::*;
use std::collections::HashMap;
verus! {
use vstd::std_specs::hash::*;
broadcast use vstd::std_specs::hash::group_hash_axioms;
// ---- trusted axioms about std String as a hash key (assumptions, listed in evidence) ----
pub broadcast axiom fn axiom_string_obeys_key_model()
    ensures #[trigger] obeys_key_model::<String>();
pub broadcast axiom fn axiom_string_view_injective(a: String, b: String)
    ensures #[trigger] a@ == #[trigger] b@ ==> a == b;
pub broadcast axiom fn axiom_str_contains_borrowed_key<V>(m: Map<String, V>, k: &str)
    ensures #[trigger] contains_borrowed_key::<String, V, str>(m, k) <==> exists|key: String| #[trigger] m.contains_key(key) && key@ == k@;
pub broadcast axiom fn axiom_str_maps_borrowed_key_to_value<V>(m: Map<String, V>, k: &str, v: V)
    ensures #[trigger] maps_borrowed_key_to_value::<String, V, str>(m, k, v) <==> exists|key: String| #[trigger] m.contains_key(key) && key@ == k@ && m[key] == v;
pub broadcast group group_string_key_axioms {
    axiom_string_obeys_key_model, axiom_string_view_injective, axiom_str_contains_borrowed_key, axiom_str_maps_borrowed_key_to_value,
}
pub const QUOTED_TRIPLE_ID_BIT: u32 = 0x8000_0000;

pub struct Dictionary {
    pub string_to_id: HashMap<String, u32>,
    pub id_to_string: HashMap<u32, String>,
    pub next_id: u32,
}

impl Dictionary {
    pub open spec fn wf(&self) -> bool {
        &&& self.next_id <= 0x8000_0000u32
        &&& forall|k: String| #[trigger] self.string_to_id@.contains_key(k) ==>
              self.string_to_id@[k] < self.next_id && self.id_to_string@.contains_key(self.string_to_id@[k]) && self.id_to_string@[self.string_to_id@[k]] == k
        &&& forall|id: u32| #[trigger] self.id_to_string@.contains_key(id) ==>
              id < self.next_id && self.string_to_id@.contains_key(self.id_to_string@[id]) && self.string_to_id@[self.id_to_string@[id]] == id
    }

    pub fn new() -> (r: Self)
        ensures r.wf()
    {
        Dictionary {
            string_to_id: HashMap::new(),
            id_to_string: HashMap::new(),
            next_id: 0,
        }
    }

    pub fn encode(&mut self, value: &str) -> (r: u32)
        requires old(self).wf(), old(self).next_id < 0x8000_0000u32,
        ensures final(self).wf(),
            r < 0x8000_0000u32,
            final(self).id_to_string@.contains_key(r),
            final(self).id_to_string@[r]@ == value@,
            (forall|k: String| k@ == value@ && old(self).string_to_id@.contains_key(k) ==> r == old(self).string_to_id@[k] && final(self).id_to_string@ == old(self).id_to_string@ && final(self).next_id == old(self).next_id),
            forall|id: u32| old(self).id_to_string@.contains_key(id) ==> final(self).id_to_string@.contains_key(id) && final(self).id_to_string@[id] == old(self).id_to_string@[id],
    {
        broadcast use group_string_key_axioms;
        if let Some(idr) = self.string_to_id.get(value) { let id = *idr;
            id
        } else {
            assert(
                self.next_id < QUOTED_TRIPLE_ID_BIT);
            let id = self.next_id;
            self.string_to_id.insert(value.to_string(), id);
            self.id_to_string.insert(id, value.to_string());
            self.next_id += 1;
            id
        }
    }

    pub fn decode(&self, id: u32) -> (r: Option<&str>)
    {
        self.id_to_string.get(&id).map(|s| s.as_str())
    }
}
}
fn main() {}
