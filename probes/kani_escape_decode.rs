use super::*;

fn sel_char() -> char {
    let c: u8 = kani::any();
    kani::assume(c < 7);
    match c { 0 => '\\', 1 => '"', 2 => '\n', 3 => '\r', 4 => '\t', 5 => 'a', _ => 'é' }
}

#[kani::proof]
#[kani::unwind(14)]
fn escape_decode_sel_2() {
    let n: usize = kani::any();
    kani::assume(n <= 2);
    let mut s = String::new();
    if n >= 1 { s.push(sel_char()); }
    if n >= 2 { s.push(sel_char()); }
    let esc = escape_ntriples_literal(&s);
    let mut lit = String::from("\"");
    lit.push_str(&esc);
    lit.push('"');
    let r = decode_ntriples_literal(&lit);
    match r {
        Some((v, rest)) => { assert!(v == s); assert!(rest.is_empty()); }
        None => assert!(false),
    }
}
