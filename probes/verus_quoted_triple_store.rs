use vstd::prelude::*;
use std::collections::HashMap;
verus! {
use vstd::std_specs::hash::*;
broadcast use vstd::std_specs::hash::group_hash_axioms;
pub broadcast axiom fn axiom_u32x3_obeys_key_model()
    ensures #[trigger] obeys_key_model::<(u32,u32,u32)>();
pub assume_specification<'a, T: Copy> [std::option::Option::<&'a T>::copied] (o: std::option::Option<&'a T>) -> (r: std::option::Option<T>)
    ensures r == (match o { Some(x) => Some(*x), None => None });

pub const QUOTED_TRIPLE_ID_BIT: u32 = 0x8000_0000;

#[inline]
pub fn is_quoted_triple_id(id: u32) -> (r: bool)
    ensures r == (id >= 0x8000_0000u32),
{
    proof { assert((id & 0x8000_0000u32 != 0) == (id >= 0x8000_0000u32)) by (bit_vector); }
    id & QUOTED_TRIPLE_ID_BIT != 0
}

pub struct QuotedTripleStore {
    pub id_to_components: HashMap<u32, (u32, u32, u32)>,
    pub components_to_id: HashMap<(u32, u32, u32), u32>,
    pub next_qt_id: u32,
}

impl QuotedTripleStore {
    pub open spec fn wf(&self) -> bool {
        &&& self.next_qt_id >= 0x8000_0000u32
        &&& forall|k: (u32,u32,u32)| self.components_to_id@.contains_key(k) ==> {
              let id = #[trigger] self.components_to_id@[k];
              id >= 0x8000_0000u32 && id < self.next_qt_id && self.id_to_components@.contains_key(id) && self.id_to_components@[id] == k }
        &&& forall|id: u32| self.id_to_components@.contains_key(id) ==> {
              let k = #[trigger] self.id_to_components@[id];
              self.components_to_id@.contains_key(k) && self.components_to_id@[k] == id }
    }

    pub fn new() -> (r: Self)
        ensures r.wf(), r.id_to_components@ == Map::<u32,(u32,u32,u32)>::empty()
    {
        Self {
            id_to_components: HashMap::new(),
            components_to_id: HashMap::new(),
            next_qt_id: QUOTED_TRIPLE_ID_BIT,
        }
    }

    pub fn encode(&mut self, subject: u32, predicate: u32, object: u32) -> (r: u32)
        requires old(self).wf(), old(self).next_qt_id < u32::MAX,
        ensures final(self).wf(),
            r >= 0x8000_0000u32,
            final(self).id_to_components@.contains_key(r),
            final(self).id_to_components@[r] == (subject, predicate, object),
            old(self).components_to_id@.contains_key((subject,predicate,object)) ==> r == old(self).components_to_id@[(subject,predicate,object)] && final(self).id_to_components@ == old(self).id_to_components@,
            forall|id: u32| old(self).id_to_components@.contains_key(id) ==> final(self).id_to_components@.contains_key(id) && final(self).id_to_components@[id] == old(self).id_to_components@[id],
    {
        broadcast use axiom_u32x3_obeys_key_model;
        let key = (subject, predicate, object);
        if let Some(idr) = self.components_to_id.get(&key) { let id = *idr;
            return id;
        }
        let id = self.next_qt_id;
        self.next_qt_id += 1;
        self.id_to_components.insert(id, key);
        self.components_to_id.insert(key, id);
        id
    }

    pub fn decode(&self, id: u32) -> (r: Option<(u32, u32, u32)>)
        ensures r == (if self.id_to_components@.contains_key(id) { Some(self.id_to_components@[id]) } else { None })
    {
        self.id_to_components.get(&id).copied()
    }
}
}
fn main() {}
