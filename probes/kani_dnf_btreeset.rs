use crate::provenance::{Provenance, DnfWmcProvenance, WmcFormula, WmcClause};
use std::collections::BTreeSet;

fn any_clause() -> WmcClause {
    let mut c = BTreeSet::new();
    // each var: absent, positive, negative
    let a: u8 = kani::any(); kani::assume(a < 3);
    let b: u8 = kani::any(); kani::assume(b < 3);
    if a == 1 { c.insert((0u32, true)); } else if a == 2 { c.insert((0u32, false)); }
    if b == 1 { c.insert((1u32, true)); } else if b == 2 { c.insert((1u32, false)); }
    c
}
fn any_formula() -> WmcFormula {
    let mut f = BTreeSet::new();
    let n: u8 = kani::any(); kani::assume(n <= 2);
    if n >= 1 { f.insert(any_clause()); }
    if n >= 2 { f.insert(any_clause()); }
    f
}
fn eval(f: &WmcFormula, x0: bool, x1: bool) -> bool {
    let mut r = false;
    for c in f.iter() {
        let mut ok = true;
        for &(v, pol) in c.iter() {
            let val = if v == 0 { x0 } else { x1 };
            if val != pol { ok = false; }
        }
        if ok { r = true; }
    }
    r
}

#[kani::proof]
#[kani::unwind(6)]
fn dnf_disjunction_sem() {
    let p = DnfWmcProvenance::new();
    let a = any_formula(); let b = any_formula();
    let d = p.disjunction(&a, &b);
    let x0: bool = kani::any(); let x1: bool = kani::any();
    assert!(eval(&d, x0, x1) == (eval(&a, x0, x1) || eval(&b, x0, x1)));
}
