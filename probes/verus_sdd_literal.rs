use vstd::prelude::*;
use std::collections::HashMap;
verus! {
use vstd::std_specs::hash::*;
broadcast use vstd::std_specs::hash::group_hash_axioms;

#[derive(Clone, Copy, PartialEq, Eq, Hash)]
pub struct SddId(pub u32);
impl SddId {
    pub const FALSE: SddId = SddId(0);
    pub const TRUE: SddId = SddId(1);
}
type VTreeId = u32;
type Element = (SddId, SddId);
pub enum SddNode {
    True,
    False,
    Literal { var: u32, polarity: bool },
    Decision { vtree: VTreeId, elements: Vec<Element> },
}
#[derive(Clone, PartialEq, Eq, Hash)]
pub enum UniqueKey {
    Literal { var: u32, polarity: bool },
    Decision { vtree: VTreeId, elements: Vec<Element> },
}
#[derive(Clone, Copy, PartialEq, Eq)]
pub enum SddBudgetError { DeadlineExceeded, NodeBudgetExceeded }

#[verifier::external_body]
pub struct SddOperationBudget<'a> { max_nodes: usize, deadline_available: &'a mut dyn FnMut() -> bool }
impl<'a> SddOperationBudget<'a> {
    #[verifier::external_body]
    fn checkpoint(&mut self) -> (r: Result<(), SddBudgetError>) { unimplemented!() }
    #[verifier::external_body]
    fn before_allocation(&mut self, current_nodes: usize) -> (r: Result<(), SddBudgetError>) { unimplemented!() }
}

pub struct SddManager {
    pub nodes: Vec<SddNode>,
    pub unique_table: HashMap<UniqueKey, SddId>,
}

impl SddManager {
    pub fn literal(&mut self, var: u32, polarity: bool) -> SddId
        requires old(self).nodes.len() < u32::MAX
    {
        let key = UniqueKey::Literal { var, polarity };
        if let Some(idr) = self.unique_table.get(&key) { let id = *idr;
            return id;
        }
        let id = SddId(self.nodes.len() as u32);
        self.nodes.push(SddNode::Literal { var, polarity });
        self.unique_table.insert(key, id);
        id
    }
    pub fn try_literal(
        &mut self,
        var: u32,
        polarity: bool,
        budget: &mut SddOperationBudget<'_>,
    ) -> (r: Result<SddId, SddBudgetError>)
        requires old(self).nodes.len() < u32::MAX
        ensures r.is_err() ==> final(self).nodes == old(self).nodes && final(self).unique_table == old(self).unique_table
    {
        budget.checkpoint()?;
        let key = UniqueKey::Literal { var, polarity };
        if let Some(idr) = self.unique_table.get(&key) { let id = *idr;
            return Ok(id);
        }
        budget.before_allocation(self.nodes.len())?;
        let id = SddId(self.nodes.len() as u32);
        self.nodes.push(SddNode::Literal { var, polarity });
        self.unique_table.insert(key, id);
        Ok(id)
    }
}
}
fn main() {}
