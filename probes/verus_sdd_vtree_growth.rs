use vstd::prelude::*;
use std::collections::HashMap;
verus! {
use vstd::std_specs::hash::*;
broadcast use vstd::std_specs::hash::group_hash_axioms;
pub assume_specification [ f64::clamp ] (x: f64, lo: f64, hi: f64) -> (r: f64);

type VTreeId = u32;
pub enum VTreeNode { Leaf { var: u32 }, Internal { left: VTreeId, right: VTreeId } }
#[derive(Clone, Copy, PartialEq, Eq)]
pub enum VarKind { Independent, ExclusiveGroup(u32) }
pub struct SddManager {
    pub vtree_nodes: Vec<VTreeNode>,
    pub vtree_root: Option<VTreeId>,
    pub var_to_vtree: HashMap<u32, VTreeId>,
    pub pos_weight: Vec<f64>,
    pub neg_weight: Vec<f64>,
    pub var_kind: Vec<VarKind>,
}
impl SddManager {
    pub open spec fn vt_wf(&self) -> bool {
        &&& self.vtree_nodes.len() < 0x7fff_ffff
        &&& (self.vtree_root matches Some(r) ==> (r as int) < self.vtree_nodes.len())
        &&& forall|i: int| 0 <= i < self.vtree_nodes.len() ==> (#[trigger] self.vtree_nodes[i] matches VTreeNode::Internal{left, right} ==> (left as int) < i && (right as int) < i)
        &&& forall|v: u32| #[trigger] self.var_to_vtree@.contains_key(v) ==> (self.var_to_vtree@[v] as int) < self.vtree_nodes.len() && self.vtree_nodes[self.var_to_vtree@[v] as int] == (VTreeNode::Leaf{var: v})
    }
    pub fn ensure_variable_weights(&mut self, var: u32, pos: f64, neg: f64, kind: VarKind)
        requires old(self).vt_wf(), old(self).vtree_nodes.len() < 0x7fff_fff0, var < 0x7fff_fff0,
            old(self).pos_weight.len() == old(self).neg_weight.len() == old(self).var_kind.len(),
        ensures final(self).vt_wf(),
            final(self).var_to_vtree@.contains_key(var),
            forall|v: u32| old(self).var_to_vtree@.contains_key(v) ==> final(self).var_to_vtree@.contains_key(v) && final(self).var_to_vtree@[v] == old(self).var_to_vtree@[v],
    {
        let id = var as usize;
        if id >= self.pos_weight.len() {
            self.pos_weight.resize(id + 1, 0.0);
            self.neg_weight.resize(id + 1, 1.0);
            self.var_kind.resize(id + 1, VarKind::Independent);
        }
        self.pos_weight[id] = pos.clamp(0.0, 1.0);
        self.neg_weight[id] = neg.clamp(0.0, 1.0);
        self.var_kind[id] = kind;

        // Already in vtree?
        if self.var_to_vtree.contains_key(&var) {
            return;
        }

        // Create leaf
        let leaf_id = self.vtree_nodes.len() as VTreeId;
        self.vtree_nodes.push(VTreeNode::Leaf { var });
        self.var_to_vtree.insert(var, leaf_id);

        // Extend right-linear vtree
        match self.vtree_root {
            None => {
                self.vtree_root = Some(leaf_id);
            }
            Some(old_root) => {
                let internal_id = self.vtree_nodes.len() as VTreeId;
                self.vtree_nodes.push(VTreeNode::Internal {
                    left: leaf_id,
                    right: old_root,
                });
                self.vtree_root = Some(internal_id);
            }
        }
    }
}
}
fn main() {}
