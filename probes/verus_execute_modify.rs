use vstd::prelude::*;
use std::collections::{HashMap, BTreeSet};
verus! {
#[verifier::external_body] pub struct SparqlDatabase { _p: u8 }
#[verifier::external_body] pub struct GroupGraphPattern<'a> { _p: &'a u8 }
#[verifier::external_body] pub struct LexicalQuadPattern<'a> { _p: &'a u8 }
#[verifier::external_body] pub struct LogicalOperator { _p: u8 }
#[verifier::external_body] pub struct DatasetView { _p: u8 }
#[verifier::external_body] pub struct Quad { _p: u8 }
pub struct InsertClause<'a> { pub quads: Vec<LexicalQuadPattern<'a>> }
pub struct DeleteClause<'a> { pub quads: Vec<LexicalQuadPattern<'a>> }
pub type Bindings = Vec<HashMap<String, u32>>;
pub struct UpdateSummary { pub inserted_quads: usize, pub deleted_quads: usize }
pub enum UpdateOperation<'a> {
    InsertData(InsertClause<'a>),
    DeleteData(DeleteClause<'a>),
    InsertWhere { insert: InsertClause<'a>, where_pattern: GroupGraphPattern<'a> },
    DeleteWhere { delete: DeleteClause<'a>, where_pattern: GroupGraphPattern<'a> },
    DeleteWhereShorthand { delete: DeleteClause<'a>, where_pattern: GroupGraphPattern<'a> },
    DeleteInsertWhere { delete: DeleteClause<'a>, insert: InsertClause<'a>, where_pattern: GroupGraphPattern<'a> },
}
pub uninterp spec fn quads(db: SparqlDatabase) -> Set<(u32,u32,u32,u32)>;

#[verifier::external_body]
fn collect_triple_patterns<'a>(pattern: &'a GroupGraphPattern<'a>, output: &mut Vec<(&'a str, &'a str, &'a str)>) { unimplemented!() }
#[verifier::external_body]
fn materialize_neural_relations_for_patterns(database: &mut SparqlDatabase, patterns: &Vec<(&str,&str,&str)>, prefixes: &HashMap<String,String>) -> (r: Result<(), String>)
    ensures quads(*final(database)) == quads(*old(database)) { unimplemented!() }
#[verifier::external_body]
fn build_logical_plan_from_group(pattern: &GroupGraphPattern<'_>, prefixes: &HashMap<String,String>, database: &mut SparqlDatabase) -> (r: Result<LogicalOperator, String>)
    ensures quads(*final(database)) == quads(*old(database)) { unimplemented!() }
#[verifier::external_body]
fn dataset_view_from_database(database: &SparqlDatabase) -> DatasetView { unimplemented!() }
#[verifier::external_body]
fn optimize_and_execute(logical_plan: LogicalOperator, dataset: &DatasetView, database: &mut SparqlDatabase) -> (r: Bindings)
    ensures quads(*final(database)) == quads(*old(database)) { unimplemented!() }
#[verifier::external_body]
fn instantiate_templates(templates: &[LexicalQuadPattern<'_>], bindings: &[HashMap<String, u32>], prefixes: &HashMap<String, String>, database: &mut SparqlDatabase, insert: bool) -> (r: Result<BTreeSet<Quad>, String>)
    ensures quads(*final(database)) == quads(*old(database)) { unimplemented!() }
#[verifier::external_body]
fn apply_mutations(deletions: BTreeSet<Quad>, insertions: BTreeSet<Quad>, database: &mut SparqlDatabase) -> UpdateSummary { unimplemented!() }

fn execute_modify(
    delete: Option<&DeleteClause<'_>>,
    insert: Option<&InsertClause<'_>>,
    where_pattern: &GroupGraphPattern<'_>,
    prefixes: &HashMap<String, String>,
    database: &mut SparqlDatabase,
) -> (r: Result<UpdateSummary, String>)
    ensures r.is_err() ==> quads(*final(database)) == quads(*old(database))
{
    let mut lexical_patterns = Vec::new();
    collect_triple_patterns(where_pattern, &mut lexical_patterns);
    materialize_neural_relations_for_patterns(database, &lexical_patterns, prefixes)?;

    let logical_plan = build_logical_plan_from_group(where_pattern, prefixes, database)?;
    let dataset = dataset_view_from_database(database);

    let bindings = optimize_and_execute(logical_plan, &dataset, database);
    let deletions = match delete {
        Some(delete) => instantiate_templates(&delete.quads, &bindings, prefixes, database, false)?,
        None => BTreeSet::new(),
    };
    let insertions = match insert {
        Some(insert) => instantiate_templates(&insert.quads, &bindings, prefixes, database, true)?,
        None => BTreeSet::new(),
    };

    Ok(apply_mutations(deletions, insertions, database))
}
}
fn main() {}
