"""Verus units: template instantiation from /repo sources, verus runs, diagnostics mapping,
vacuity twins."""
import json
import os
import re
import subprocess
import time

from rustlex import lex, normalise
import extract
from extract import Source, Body, ExtractError, split_template_sig, real_sig, rewrite_type_def, sha256

VERIF = os.path.dirname(os.path.dirname(os.path.abspath(__file__)))

# messages of Verus that mean "an obligation is false or unproved" (as opposed to
# "Verus cannot read this file")
PROPERTY_FAILURES = (
    'postcondition not satisfied',
    'precondition not satisfied',
    'assertion failed',
    'invariant not satisfied at end of loop body',
    'invariant not satisfied before loop',
    'possible arithmetic underflow/overflow',
    'possible division by zero',
    'decreases not satisfied',
    'possible bit shift underflow/overflow',
    'unreachable',
    'loop invariant',
    'recommendation not met',
)
RLIMIT_MSGS = ('Resource limit (rlimit) exceeded', 'resource limit', 'rlimit')


class Unit:
    """One generated Verus file."""

    def __init__(self, name, tmpl_path, repo_root):
        self.name = name
        self.tmpl_path = tmpl_path
        self.repo = repo_root
        self.sources = {}
        self.functions = []     # dicts per extracted fn
        self.types = []
        self.regions = []       # (start_off, end_off, fn_label, kind) in generated text
        self.trusted = []       # scanned assumptions
        self.generated = None
        self.twins = None
        self.audits = []
        self.anchors_lost = []
        self.assumed = []
        self.demote = set()
        self.drop_hints = set()
        self.demoted_info = []

    def src(self, rel):
        if rel not in self.sources:
            p = os.path.join(self.repo, rel)
            if not os.path.exists(p):
                raise ExtractError('anchor drift: source file %s missing' % rel)
            self.sources[rel] = Source(rel, open(p, encoding='utf-8').read())
        return self.sources[rel]

    # --------------------------------------------------------------------------------
    def generate(self):
        self.functions = []
        self.types = []
        self.regions = []
        self.assumed = []
        self.anchors_lost = []
        self.demoted_info = []
        lines = self._conditionals(open(self.tmpl_path, encoding='utf-8').read().split('\n'))
        out = []          # list of text chunks
        twins_out = []    # same, with vacuity twins
        i = 0

        def emit(s, both=True):
            out.append(s)
            if both:
                twins_out.append(s)

        cur_off = lambda: sum(len(x) for x in out)
        while i < len(lines):
            ln = lines[i]
            m = re.match(r'\s*//@(\w+)\s*(.*)$', ln)
            if not m:
                emit(ln + '\n')
                i += 1
                continue
            d, arg = m.group(1), m.group(2).strip()
            if d in ('struct', 'enum', 'const', 'type', 'static'):
                parts = arg.split()
                rel, name = parts[0], parts[1]
                opts = dict(p.split('=', 1) for p in parts[2:])
                s = self.src(rel)
                item = s.find_item(d, name)
                if d in ('struct', 'enum'):
                    keep = extract.KEEP_DERIVES
                    if 'derives' in opts:
                        keep = tuple(x for x in opts['derives'].split(',') if x)
                    text, rw = rewrite_type_def(s, item, d, keep)
                else:
                    text = s.text_between(item['start'], item['end'])
                    if not text.lstrip().startswith('pub'):
                        text = 'pub ' + text
                    rw = []
                self.types.append(dict(kind=d, file=rel, name=name, line=s.line_of(s.tok(item['start'])[2]),
                                       sha256=sha256(s.text_between(item['start'], item['end'])), rewrites=rw))
                emit('// ---- extracted %s %s from %s:%d\n' % (d, name, rel, s.line_of(s.tok(item['start'])[2])))
                emit(text + '\n')
                i += 1
                continue
            if d == 'fn':
                parts = arg.split()
                rel, path = parts[0], parts[1]
                # path may contain spaces for trait impls:  "Provenance for X::f" -> allow quoting by '~'
                path = path.replace('~', ' ')
                opts = dict(p.split('=', 1) for p in parts[2:])
                allowed = set(x for x in opts.get('rewrites', '').split(',') if x)
                # gather signature lines and hint sections
                i += 1
                sig_lines = []
                sections = []
                cur = None
                while i < len(lines):
                    mm = re.match(r'\s*//@(\w+)(#\d+)?\s*(.*)$', lines[i])
                    if mm:
                        dd = mm.group(1)
                        if dd == 'end':
                            break
                        if dd not in ('top', 'tail', 'loop', 'after', 'before'):
                            raise ExtractError('template error: unexpected //@%s inside //@fn %s' % (dd, path))
                        cur = dict(kind=dd, ordinal=int(mm.group(2)[1:]) if mm.group(2) else None, arg=mm.group(3).strip(), text=[])
                        sections.append(cur)
                    elif cur is None:
                        sig_lines.append(lines[i])
                    else:
                        cur['text'].append(lines[i])
                    i += 1
                else:
                    raise ExtractError('template error: //@fn %s without //@end' % path)
                i += 1
                self._emit_fn(rel, path, allowed, '\n'.join(sig_lines), sections, out, twins_out)
                continue
            if d == 'extern':
                # assumed contract on a function left outside the proof: the SIGNATURE is still checked
                # against the source (anchor drift otherwise); the body is not read.
                parts = arg.split()
                rel, path = parts[0], parts[1].replace('~', ' ')
                xopts = dict(p.split('=', 1) for p in parts[2:] if '=' in p)
                i += 1
                sig_lines = []
                while i < len(lines) and not re.match(r'\s*//@end\b', lines[i]):
                    sig_lines.append(lines[i])
                    i += 1
                i += 1
                sig_text = '\n'.join(sig_lines)
                s = self.src(rel)
                f = s.find_fn(path)
                plain, ret_name, clauses = split_template_sig(sig_text)
                rs = real_sig(s, f)
                if plain != rs:
                    raise ExtractError('anchor drift: signature of assumed fn %s in %s changed\n  template: %s\n  source:   %s' % (path, rel, plain, rs))
                body_text = s.text[s.tok(f['body_open'])[3]:s.tok(f['body_close'])[2]]
                emit('// ---- ASSUMED contract for %s (%s:%d), body not verified (sha256 %s)\n' % (path, rel, s.line_of(s.tok(f['fn_ci'])[2]), sha256(body_text)[:16]))
                emit('#[verifier::external_body]\n' + sig_text.rstrip() + '\n{ unimplemented!() }\n')
                self.assumed.append(dict(file=rel, fn=path, line=s.line_of(s.tok(f['fn_ci'])[2]), body_sha256=sha256(body_text), proved_in=xopts.get('proved_in'),
                                         clauses=[dict(kind=k, text=re.sub(r'\s+', ' ', t)[:300]) for k, t in clauses]))
                continue
            raise ExtractError('template error: unknown directive //@%s' % d)
        self.generated = ''.join(out)
        self.twins = ''.join(twins_out)
        self._scan_trusted()
        return self.generated

    def _body_contains(self, rel, path, needle):
        s = self.src(rel)
        f = s.find_fn(path.replace('~', ' '))
        body = s.text[s.tok(f['body_open'])[3]:s.tok(f['body_close'])[2]]
        return (' ' + normalise(needle) + ' ') in (' ' + normalise(body) + ' ')

    def _conditionals(self, lines):
        """//@when <file> <fn> contains <tokens> ... //@endwhen   (also //@unless)
           //@demand <file> <fn> contains <tokens>   -> UNDECIDED when absent (call-site audit, not a proof)
           blocks are kept/dropped depending on the *current* source text; every decision is recorded."""
        out = []
        keep = [True]
        self.audits = []
        for ln in lines:
            m = re.match(r'\s*//@(when|unless|demand)\s+(\S+)\s+(\S+)\s+contains\s+(.*)$', ln)
            if m:
                kind, rel, path, needle = m.groups()
                has = self._body_contains(rel, path, needle.strip())
                self.audits.append(dict(kind=kind, file=rel, fn=path, needle=needle.strip(), found=has))
                if kind == 'demand':
                    if keep[-1] and not has:
                        raise ExtractError('anchor drift: call-site audit: body of %s no longer contains `%s`' % (path, needle.strip()))
                    continue
                keep.append(keep[-1] and (has if kind == 'when' else not has))
                continue
            if re.match(r'\s*//@(endwhen|endunless)\b', ln):
                keep.pop()
                continue
            if keep[-1]:
                out.append(ln)
        return out

    def _emit_fn(self, rel, path, allowed, sig_text, sections, out, twins_out):
        s = self.src(rel)
        f = s.find_fn(path)
        plain, ret_name, clauses = split_template_sig(sig_text)
        rs = real_sig(s, f)
        if plain != rs:
            raise ExtractError('anchor drift: signature of %s in %s changed\n  template: %s\n  source:   %s' % (path, rel, plain, rs))
        body_text = s.text[s.tok(f['body_open'])[3]:s.tok(f['body_close'])[2]]
        base_line = s.line_of(s.tok(f['body_open'])[3])
        if path in self.demote:
            # the body is outside the verifier's reach on this tree (unsupported construct): keep the contract as an
            # ASSUMED one so that callers still verify; the function itself is handed to the bounded stand-in.
            chunk = '// ---- DEMOTED (body not readable by Verus on this tree): %s from %s\n#[verifier::external_body]\n%s\n{ unimplemented!() }\n' % (path, rel, sig_text.rstrip())
            out.append(chunk)
            twins_out.append(chunk)
            self.demoted_info.append(dict(file=rel, fn=path, line=s.line_of(s.tok(f['fn_ci'])[2]), body_sha256=sha256(body_text)))
            return
        b = Body(body_text, base_line)
        if 'R8' in allowed:
            b.r8_extend_map()
            b.r8_extend_plain()
        if 'R10' in allowed:
            b.r10_map_collect_tail()
        if 'R11' in allowed:
            b.r11_continue_guard()
        if 'R9' in allowed:
            b.r9_filter_count()
        if 'R7' in allowed:
            b.r7_option_combinators()
        b.r4_logging()
        b.r2_assert(as_guard=('R2g' in allowed))
        b.r3_panic_closure()
        b.r1_ref_patterns()
        b.flush()
        used = set(r['rule'].split()[0] for r in b.rewrites)
        if not used <= allowed:
            raise ExtractError('unsupported construct: body of %s now needs rewrite(s) %s which the unit does not allow (allowed: %s)'
                               % (path, ','.join(sorted(used - allowed)), ','.join(sorted(allowed)) or 'none'))
        hints = 0
        if path in self.drop_hints:
            self.anchors_lost.append('%s: proof hints no longer compile against the changed body - all hints of this function dropped' % path)
            sections = []
        for sec in sections:
            text = '\n'.join(sec['text'])
            hints += 1
            try:
                if sec['kind'] == 'top':
                    b.insert_top(text)
                elif sec['kind'] == 'tail':
                    b.insert_tail(text)
                elif sec['kind'] == 'loop':
                    a = sec['arg'].split()
                    it = None
                    for x in a[1:]:
                        if x.startswith('iter='):
                            it = x[5:]
                    b.insert_loop(int(a[0]), text, it)
                elif sec['kind'] == 'after':
                    b.insert_after(sec['arg'], text, sec['ordinal'])
                elif sec['kind'] == 'before':
                    b.insert_before(sec['arg'], text, sec['ordinal'])
            except ExtractError as e:
                # a proof hint lost its anchor: the hint is dropped (hints never change what is proved, only
                # whether the solver finds the proof).  A failure in this unit is then only reported as a
                # violation when the witness search exhibits a concrete failing input on the real code.
                self.anchors_lost.append('%s: %s' % (path, str(e)))
        if any(al.startswith(path + ':') for al in self.anchors_lost):
            # one hint lost its anchor: later hints may refer to ghost variables it introduced, so ALL hints of this
            # function are dropped (consistently); the function is then verified from its contract alone.
            b = Body(body_text, base_line)
            if 'R8' in allowed:
                b.r8_extend_map()
                b.r8_extend_plain()
            if 'R10' in allowed:
                b.r10_map_collect_tail()
            if 'R11' in allowed:
                b.r11_continue_guard()
            if 'R9' in allowed:
                b.r9_filter_count()
            if 'R7' in allowed:
                b.r7_option_combinators()
            b.r4_logging()
            b.r2_assert(as_guard=('R2g' in allowed))
            b.r3_panic_closure()
            b.r1_ref_patterns()
            b.flush()
            hints = 0
        new_body = b.apply()
        start = sum(len(x) for x in out)
        header = '// ---- extracted fn %s from %s:%d (body sha256 %s)\n' % (path, rel, s.line_of(s.tok(f['fn_ci'])[2]), sha256(body_text)[:16])
        chunk = header + sig_text.rstrip() + '\n{' + new_body + '}\n'
        out.append(chunk)
        twins_out.append(chunk)
        sig_start = start + len(header)
        body_start = sig_start + len(sig_text.rstrip()) + 1
        self.regions.append((sig_start, body_start, path, 'contract'))
        self.regions.append((body_start, start + len(chunk), path, 'body'))
        # vacuity twin: same signature, requires only, body asserts false
        reqs = [c for c in clauses if c[0] == 'requires']
        cut = len(sig_text)
        mm = None
        toks = [t for t in lex(sig_text) if t[0] not in ('ws', 'lcomment', 'bcomment')]
        depth = 0
        for t in toks:
            if t[0] == 'punct' and t[1] in extract.OPEN:
                depth += 1
            elif t[0] == 'punct' and t[1] in extract.CLOSE:
                depth -= 1
            elif depth == 0 and t[0] == 'ident' and t[1] in extract.CONTRACT_KW:
                cut = t[2]
                break
        bare = sig_text[:cut]
        fname = path.rsplit('::', 1)[-1]
        twin_sig = re.sub(r'\bfn\s+' + re.escape(fname) + r'\b', 'fn vacuity_twin_' + fname, bare, count=1)
        twin = '// ---- vacuity twin of %s: must FAIL\n%s\n' % (path, twin_sig.rstrip())
        if reqs:
            twin += '    requires ' + ' '.join(r[1].rstrip(',') + ',' for r in reqs) + '\n'
        twin += '{ assert(false); vstd::pervasive::unreached() }\n'
        twins_out.append(twin)
        self.functions.append(dict(file=rel, fn=path, line=s.line_of(s.tok(f['fn_ci'])[2]), body_sha256=sha256(body_text),
                                   rewrites=b.rewrites, hints=hints, clauses=[dict(kind=k, text=re.sub(r'\s+', ' ', t)[:300]) for k, t in clauses],
                                   n_requires=len(reqs), twin='vacuity_twin_' + fname))

    def _scan_trusted(self):
        self.trusted = []
        g = self.generated
        for m in re.finditer(r'assume_specification\s*(<[^\[]*>)?\s*\[', g):
            # the path between the balanced [ ... ] (it may itself contain brackets: <[T]>::sort_unstable)
            depth, k = 1, m.end()
            while k < len(g) and depth > 0:
                depth += 1 if g[k] == '[' else -1 if g[k] == ']' else 0
                k += 1
            self.trusted.append('assume_specification ' + re.sub(r'\s+', '', g[m.end():k - 1]))
        for m in re.finditer(r'\baxiom\s+fn\s+(\w+)', g):
            self.trusted.append('axiom ' + m.group(1))
        for m in re.finditer(r'#\[verifier::external_body\]\s*(?:#\[[^\]]*\]\s*)*(?:pub\s+)?(?:open\s+|closed\s+|uninterp\s+)?(?:spec\s+|proof\s+|exec\s+)?(fn|struct|enum)\s+(\w+)', g):
            self.trusted.append('external_body %s %s' % (m.group(1), m.group(2)))
        for m in re.finditer(r'#\[verifier::external_type_specification\]', g):
            self.trusted.append('external_type_specification')
        for m in re.finditer(r'\b(assume|admit)\s*\(', g):
            ln = g.count('\n', 0, m.start()) + 1
            self.trusted.append('%s( at generated line %d' % (m.group(1), ln))
        for m in re.finditer(r'\buninterp\s+spec\s+fn\s+(\w+)', g):
            self.trusted.append('uninterpreted spec fn ' + m.group(1))
        for m in re.finditer(r'#\[derive\([^)]*\bStructural\b[^)]*\)\]\s*(?:pub\s+)?(?:enum|struct)\s+(\w+)', g):
            self.trusted.append('Structural marker on %s (exec == is structural equality; added only while the source derives PartialEq, Eq)' % m.group(1))

    # --------------------------------------------------------------------------------
    def region_of(self, off):
        for a, b, label, kind in self.regions:
            if a <= off < b:
                return label, kind
        return None, None


def run_verus(path, rlimit=None, seed=None, timeout=1800, only_twins=False):
    cmd = ['verus', path, '--output-json', '--time', '--triggers-mode', 'silent', '--multiple-errors', '20']
    if only_twins:
        cmd += ['--verify-root', '--verify-function', '*vacuity_twin_*']
    if rlimit:
        cmd += ['--rlimit', str(rlimit)]
    if seed is not None:
        cmd += ['--smt-option', 'smt.random_seed=%d' % seed]
    cmd += ['--', '--error-format=json']
    t0 = time.time()
    try:
        p = subprocess.run(cmd, cwd=os.path.dirname(path), capture_output=True, text=True, timeout=timeout)
    except subprocess.TimeoutExpired:
        return dict(cmd=' '.join(cmd), rc=None, timeout=True, wall_s=time.time() - t0, diags=[], json=None, stderr='timeout')
    diags = []
    for l in p.stderr.split('\n'):
        l = l.strip()
        if l.startswith('{'):
            try:
                diags.append(json.loads(l))
            except Exception:
                pass
    js = None
    try:
        js = json.loads(p.stdout)
    except Exception:
        # stdout may contain extra text before the json
        k = p.stdout.find('{')
        if k >= 0:
            try:
                js = json.loads(p.stdout[k:])
            except Exception:
                js = None
    return dict(cmd=' '.join(cmd), rc=p.returncode, timeout=False, wall_s=time.time() - t0, diags=diags, json=js, stderr=p.stderr, stdout=p.stdout)


def classify_diag(d):
    """-> 'property' | 'rlimit' | 'other-error' | None (note/warning)"""
    if d.get('level') not in ('error', 'error: internal compiler error'):
        return None
    msg = d.get('message', '')
    if msg.startswith('aborting due to'):
        return None
    if d.get('code'):
        return 'other-error'
    low = msg.lower()
    for r in RLIMIT_MSGS:
        if r.lower() in low:
            return 'rlimit'
    for pf in PROPERTY_FAILURES:
        if low.startswith(pf.lower()):
            return 'property'
    return 'other-error'


def function_results(js):
    res = {}
    if not js:
        return res
    try:
        for mt in js['times-ms']['smt']['smt-run-module-times']:
            for fb in mt.get('function-breakdown', []):
                res[fb['function']] = dict(mode=fb.get('mode:', fb.get('mode')), ok=fb['success'], time_us=fb.get('time-micros', 0), rlimit=fb.get('rlimit'))
    except Exception:
        pass
    return res


def label_at(text, off):
    """clause label: a /*[name]*/ comment immediately before offset"""
    pre = text[max(0, off - 160):off]
    m = re.search(r'/\*\[([\w\-.: ]+)\]\*/\s*$', pre)
    return m.group(1) if m else None
