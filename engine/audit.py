"""Assumption audit (NOT a proof): list the textual mutation sites of the quad store and compare the set of
enclosing functions with a committed allow-list.  A new site in a function outside the list makes an assumed
frame contract not credible -> UNDECIDED (exit 2), never a VIOLATION: a grep is not a verifier."""
import glob
import os
import re
from extract import Source
from rustlex import LexError


def functions_of(src):
    """all fn items with body spans: list of (name, body_open_off, body_close_off)"""
    out = []
    for ci in range(len(src.code) - 1):
        if src.is_(ci, 'ident', 'fn') and src.tok(ci + 1)[0] == 'ident':
            f = src._fn_at(ci)
            if f:
                out.append((src.tok(ci + 1)[1], src.tok(f['body_open'])[2], src.tok(f['body_close'])[3]))
    return out


def test_spans(src):
    """spans of #[cfg(test)] mod blocks"""
    spans = []
    for m in re.finditer(r'#\[cfg\(test\)\]\s*(?:pub\s+)?mod\s+\w+\s*\{', src.text):
        # find the token index of the '{'
        off = m.end() - 1
        for ci in range(len(src.code)):
            if src.tok(ci)[2] == off:
                spans.append((off, src.tok(src.close_of(ci))[3]))
                break
    return spans


def run(src_root, spec):
    pat = re.compile(spec['pattern'])
    sites = []
    for g in spec['globs']:
        for path in sorted(glob.glob(os.path.join(src_root, g), recursive=True)):
            rel = os.path.relpath(path, src_root)
            text = open(path, encoding='utf-8').read()
            if not pat.search(text):
                continue
            try:
                src = Source(rel, text)
            except LexError as e:
                return None, 'lex error in %s: %s' % (rel, e)
            fns = functions_of(src)
            tspans = test_spans(src)
            # only matches in code tokens
            for ci in range(len(src.code)):
                t = src.tok(ci)
                if t[0] != 'ident' or not pat.fullmatch(t[1]):
                    continue
                # must be a call or assignment target: followed by '(' or '='
                nxt = src.tok(ci + 1)[1] if ci + 1 < len(src.code) else ''
                if nxt not in ('(', '=') or (nxt == '=' and ci + 2 < len(src.code) and src.tok(ci + 2)[1] in ('=', '>')):
                    continue
                if ci > 0 and src.tok(ci - 1)[1] == 'fn':
                    continue
                off = t[2]
                if any(a <= off < b for a, b in tspans):
                    continue
                encl = [f for f in fns if f[1] <= off < f[2]]
                name = min(encl, key=lambda f: f[2] - f[1])[0] if encl else '<top>'
                sites.append((rel, name, t[1], src.line_of(off)))
    allowed = set(spec['allowed'])
    found = sorted(set('%s::%s' % (r, n) for r, n, _, _ in sites))
    new = [f for f in found if f not in allowed]
    return dict(sites=len(sites), functions=found, not_on_allowlist=new), None
