#!/usr/bin/env python3
"""./check <Cxx> --tier quick|thorough [--replay file] | --setup | --clean

Exit codes: 0 property held on everything explored (possibly with KNOWN-FINDING lines),
            1 VIOLATION property=<id> replay=<path>
            2 UNDECIDED property=<id> reason=<..>   (never an alarm, never a pass)
"""
import argparse
import concurrent.futures as cf
import fcntl
import json
import os
import re
import shutil
import subprocess
import sys
import time

HERE = os.path.dirname(os.path.abspath(__file__))
sys.path.insert(0, HERE)
VERIF = os.path.dirname(HERE)
REPO = os.environ.get('VERIF_REPO', '/repo')
BUILD = os.path.join(VERIF, '.build')

import verus_unit as VU
import kani_unit as KU
from extract import ExtractError
from rustlex import LexError


def load_config():
    return json.load(open(os.path.join(VERIF, 'contracts', 'properties.json')))


def sync_tree(pid):
    dst = os.path.join(BUILD, pid, 'src')
    os.makedirs(dst, exist_ok=True)
    # no -t: a file whose CONTENT changed gets a fresh mtime in the copy whatever its mtime in /repo (cargo decides
    # freshness by mtime; a reverted file with an old timestamp would otherwise leave a stale binary behind),
    # --checksum: unchanged files are not touched at all
    subprocess.run(['rsync', '-rlpgoD', '--checksum', '--delete', '--exclude', '/target', '--exclude', '.git', '--exclude', '/web', '--exclude', '/docs',
                    '--exclude', '/datasets',
                    REPO + '/', dst + '/'], check=True)
    return dst


def known_findings():
    out = []
    p = os.path.join(VERIF, 'known_findings.txt')
    if os.path.exists(p):
        for l in open(p):
            l = l.strip()
            if not l or l.startswith('#') or l.startswith('fixed:'):
                continue
            kv = dict(x.split('=', 1) for x in l.split() if '=' in x)
            kv['_line'] = l
            out.append(kv)
    return out


class Result:
    def __init__(self, pid, tier):
        self.pid = pid
        self.tier = tier
        self.undecided = []     # reasons
        self.violations = []    # dicts(obligation, reason, detail, unit, replay)
        self.known = []
        self.obligations = 0
        self.discharged = 0
        self.units = []
        self.trusted = []
        self.checker_cmds = []
        self.samples = []
        self.solver_s = 0.0
        self.functions = []
        self.clauses = 0
        self.extra = {}


# ------------------------------------------------------------------------------------------
# Verus
# ------------------------------------------------------------------------------------------
def run_verus_unit(res, unit_name, src_root, allow):
    tmpl = os.path.join(VERIF, 'contracts', 'verus', unit_name + '.vrs.tmpl')
    gen_dir = os.path.join(BUILD, res.pid, 'verus')
    os.makedirs(gen_dir, exist_ok=True)
    u = VU.Unit(unit_name, tmpl, src_root)
    info = dict(unit=unit_name, back_end='verus', functions=[], status='?')
    res.units.append(info)
    try:
        text = expand_includes(tmpl)
        tmp_t = os.path.join(gen_dir, unit_name + '.tmpl.expanded')
        open(tmp_t, 'w').write(text)
        u.tmpl_path = tmp_t
        u.generate()
    except (ExtractError, LexError) as e:
        info['status'] = 'undecided'
        res.undecided.append('unit %s: %s' % (unit_name, str(e).split('\n')[0]))
        info['detail'] = str(e)
        return
    main_p = os.path.join(gen_dir, unit_name + '.rs')
    twin_p = os.path.join(gen_dir, unit_name + '_vacuity.rs')
    allowed = set(allow.get(unit_name, []))
    demote_reasons = {}
    for attempt in range(12):
        open(main_p, 'w').write(u.generated)
        open(twin_p, 'w').write(u.twins)
        # trusted-base scan against allow-list (demoted functions are reported separately, not as allowed assumptions)
        unexpected = [t for t in u.trusted if strip_line(t) not in allowed
                      and not any(strip_line(t) == 'external_body fn ' + d.split('::')[-1] for d in u.demote)]
        info['trusted'] = u.trusted
        if unexpected:
            info['status'] = 'undecided'
            res.undecided.append('unit %s: assumption(s) not on the committed allow-list: %s' % (unit_name, '; '.join(unexpected)))
            return
        with cf.ThreadPoolExecutor(2) as ex:
            f_main = ex.submit(VU.run_verus, main_p)
            f_twin = ex.submit(VU.run_verus, twin_p, None, None, 1800, True)
            r_main, r_twin = f_main.result(), f_twin.result()
        # a compile / unsupported-construct error inside the BODY of an extracted function: demote that function and retry
        newly = None
        for d in r_main['diags']:
            if VU.classify_diag(d) != 'other-error':
                continue
            for sp in d.get('spans', []):
                coff = len(u.generated.encode()[:sp.get('byte_start', 0)].decode(errors='ignore'))
                label, kind = u.region_of(coff)
                if label and kind == 'body' and label not in u.demote:
                    newly = (label, d.get('message', '')[:200])
                    break
            if newly:
                break
        if not newly:
            break
        fn_has_hints = any(f['fn'] == newly[0] and f.get('hints') for f in u.functions)
        if fn_has_hints and newly[0] not in u.drop_hints:
            # the error may sit in proof text that no longer fits the changed body: drop this function's hints first
            u.drop_hints.add(newly[0])
        else:
            u.demote.add(newly[0])
            demote_reasons[newly[0]] = newly[1]
        try:
            u.generate()
        except (ExtractError, LexError) as e:
            info['status'] = 'undecided'
            res.undecided.append('unit %s: %s' % (unit_name, str(e).split('\n')[0]))
            return
    res.trusted += ['%s: %s' % (unit_name, t) for t in u.trusted]
    res.checker_cmds.append(r_main['cmd'])
    # ---- main run
    verdict_main(res, info, u, r_main, main_p)
    # ---- twins
    verdict_twins(res, info, u, r_twin)
    # ---- demoted functions -> bounded stand-in (witness harness); a violation needs a concrete failing input
    for dfn in sorted(u.demote):
        info.setdefault('demoted', []).append(dict(fn=dfn, reason=demote_reasons.get(dfn)))
        res.violations.append(dict(unit=u.name, fn=dfn, clause='', obligation='%s/%s :: contract of a function whose body Verus can no longer read (%s) - bounded stand-in' % (u.name, dfn, demote_reasons.get(dfn, '')[:120]),
                                   reason='function outside the verifier\'s reach on this tree; bounded executable contract check used as stand-in', where='', rendered=demote_reasons.get(dfn, ''),
                                   tentative=True, anchors_lost=['body of %s unreadable: %s' % (dfn, demote_reasons.get(dfn, '')[:160])], bounded=True))
        if info['status'] == 'pass':
            info['status'] = 'undecided-demoted'
    for f in u.functions:
        ff = dict(f)
        ff['back_end'] = 'verus/z3'
        ff['strength'] = 'P-unbounded'
        res.functions.append(ff)
        res.clauses += len(f['clauses'])
    info['types'] = u.types
    info['call_site_audits'] = u.audits
    info['hint_anchors_lost'] = u.anchors_lost
    info['assumed_contracts'] = u.assumed
    for a in u.assumed:
        if a.get('proved_in'):
            res.trusted.append('%s: contract of %s used as callee contract here; it is PROVED on the real body in unit %s (same contract text, shared include)' % (unit_name, a['fn'], a['proved_in']))
        else:
            res.trusted.append('%s: ASSUMED contract on %s (%s) - body not verified' % (unit_name, a['fn'], a['file']))
    info['functions'] = [f['fn'] for f in u.functions]


def strip_line(t):
    return re.sub(r' at generated line \d+', '', t)


def expand_includes(path):
    out = []
    for ln in open(path, encoding='utf-8').read().split('\n'):
        m = re.match(r'\s*//@include\s+(\S+)', ln)
        if m:
            out.append(open(os.path.join(os.path.dirname(path), m.group(1)), encoding='utf-8').read())
        else:
            out.append(ln)
    return '\n'.join(out)


def verdict_main(res, info, u, r, path, retried=False):
    info['wall_s'] = round(r['wall_s'], 2)
    if r['timeout'] or r['json'] is None:
        info['status'] = 'undecided'
        res.undecided.append('unit %s: verus produced no result (%s)' % (u.name, 'timeout' if r['timeout'] else (r['stderr'] or '')[-300:].replace('\n', ' ')))
        return
    fr = VU.function_results(r['json'])
    vr = r['json'].get('verification-results', {})
    kinds = [(VU.classify_diag(d), d) for d in r['diags']]
    other = [d for k, d in kinds if k == 'other-error']
    prop = [d for k, d in kinds if k == 'property']
    rl = [d for k, d in kinds if k == 'rlimit']
    if other or vr.get('encountered-vir-error'):
        info['status'] = 'undecided'
        msg = other[0]['message'] if other else 'vir error'
        sp = (other[0].get('spans') or [{}])[0] if other else {}
        res.undecided.append('unit %s: unsupported construct / compile error in generated file: %s (generated line %s)' % (u.name, msg[:200], sp.get('line_start')))
        info['detail'] = (other[0].get('rendered') if other else r['stderr'][-2000:])
        return
    if (prop or rl) and not retried:
        # one retry with doubled rlimit and another seed: solver flakiness must not raise alarms
        r2 = VU.run_verus(path, rlimit=20, seed=7)
        return verdict_main(res, info, u, r2, path, retried=True)
    try:
        res.solver_s += r['json']['times-ms']['smt']['smt-run'] / 1000.0
    except Exception:
        pass
    # obligations = verified functions
    n_ok = sum(1 for f, v in fr.items() if v['ok'] and v['mode'] in ('exec', 'proof'))
    n_all = sum(1 for f, v in fr.items() if v['mode'] in ('exec', 'proof'))
    info['verified'] = vr.get('verified')
    info['errors'] = vr.get('errors')
    res.obligations += n_all
    res.discharged += n_ok
    # every extracted function must be among the verified ones
    missing = []
    for f in u.functions:
        key = [k for k in fr if k.endswith('::' + f['fn']) or k.endswith('::' + f['fn'].split(' for ')[-1])]
        if not key:
            missing.append(f['fn'])
    if missing and not prop:
        # functions with trivially-true obligations may be absent from the smt breakdown; count via 'verified'
        pass
    if rl and not prop:
        info['status'] = 'undecided'
        res.undecided.append('unit %s: rlimit exceeded after retry' % u.name)
        return
    if prop:
        info['status'] = 'violation'
        gen = u.generated
        seen = set()
        for d in prop:
            prim = [s for s in d.get('spans', []) if s.get('is_primary')] or d.get('spans', [])
            sp = prim[0] if prim else {}
            off = sp.get('byte_start', 0)
            # byte offsets -> char offsets (generated text may contain non-ascii)
            coff = len(gen.encode()[:off].decode(errors='ignore'))
            label, kind = u.region_of(coff)
            clause_txt = ' '.join(t['text'].strip() for t in sp.get('text', []))[:200]
            cl = VU.label_at(gen, coff)
            # where in the body (secondary span)
            sec = [s for s in d.get('spans', []) if not s.get('is_primary')]
            where = ''
            fn_label = label
            for s2 in sec:
                c2 = len(gen.encode()[:s2.get('byte_start', 0)].decode(errors='ignore'))
                l2, k2 = u.region_of(c2)
                if l2:
                    fn_label = fn_label or l2
                    where = (s2.get('label') or '') + ' `' + ' '.join(t['text'].strip() for t in s2.get('text', []))[:80] + '`'
                    if kind == 'contract' and l2 != label:
                        # precondition of callee `label` failed inside caller l2
                        fn_label = l2
            if fn_label is None:
                # lemma or helper of the template: find enclosing fn name textually
                m = None
                for m in re.finditer(r'\bfn\s+(\w+)', gen[:coff]):
                    pass
                fn_label = 'template:' + (m.group(1) if m else '?')
            ob = '%s/%s :: %s :: %s' % (u.name, fn_label, d['message'], cl or clause_txt)
            if ob in seen:
                continue
            seen.add(ob)
            res.violations.append(dict(unit=u.name, fn=fn_label, clause=cl or clause_txt, obligation=ob, reason=d['message'], where=where,
                                       rendered=d.get('rendered', ''), tentative=bool(u.anchors_lost), anchors_lost=list(u.anchors_lost)))
        return
    if not vr.get('success'):
        info['status'] = 'undecided'
        res.undecided.append('unit %s: verus reports failure without a classified diagnostic' % u.name)
        info['detail'] = r['stderr'][-2000:]
        return
    if n_all == 0 or len(u.functions) == 0:
        info['status'] = 'undecided'
        res.undecided.append('unit %s: zero obligations generated (vacuous run)' % u.name)
        return
    info['status'] = 'pass'


def verdict_twins(res, info, u, r):
    """every twin must fail with exactly 'assertion failed' on its assert(false); nothing else may fail."""
    if info['status'] != 'pass':
        return
    if r['timeout'] or r['json'] is None:
        info['status'] = 'undecided'
        res.undecided.append('unit %s: vacuity run produced no result' % u.name)
        return
    kinds = [(VU.classify_diag(d), d) for d in r['diags']]
    other = [d for k, d in kinds if k == 'other-error']
    if other:
        info['status'] = 'undecided'
        res.undecided.append('unit %s: vacuity file does not compile: %s' % (u.name, other[0]['message'][:200]))
        info['detail'] = other[0].get('rendered')
        return
    failed_twins = set()
    for k, d in kinds:
        if k != 'property':
            continue
        for s in d.get('spans', []):
            for t in s.get('text', []):
                if 'assert(false)' in t['text']:
                    # find which twin: search backwards in twins text
                    off = s.get('byte_start', 0)
                    pre = u.twins.encode()[:off].decode(errors='ignore')
                    m = None
                    for m in re.finditer(r'fn\s+(vacuity_twin_\w+)', pre):
                        pass
                    if m:
                        failed_twins.add((m.group(1), len(re.findall(r'fn\s+' + m.group(1) + r'\b', pre))))
    # count twins by name occurrences (same method name may exist in several impls)
    want = len(u.functions)
    info['vacuity_twins'] = want
    info['vacuity_twins_failed_as_required'] = len(failed_twins)
    if len(failed_twins) != want:
        info['status'] = 'undecided'
        res.undecided.append('unit %s: vacuity check: %d of %d twins failed as required - a precondition or axiom set is contradictory' % (u.name, len(failed_twins), want))


# ------------------------------------------------------------------------------------------
def finish(res, cfg, t0, seed):
    pid = res.pid
    pc = cfg[pid]
    kf = [k for k in known_findings() if k.get('property') == pid]
    real_viol = []
    for v in list(res.violations):
        if v.get('tentative') and not v.get('witness'):
            res.undecided.append('unit %s: proof hint anchor lost (%s) and the proof of "%s" no longer goes through; no failing input found on the real code - undecided, not an alarm'
                                 % (v['unit'], '; '.join(v.get('anchors_lost', []))[:200], v['obligation'][:120]))
            res.violations.remove(v)
    # tentative (hint-less / demoted) failures confirmed by ONE function-level witness are one violation, not many
    grouped = {}
    for v in list(res.violations):
        if v.get('witness') and v.get('back_end') != 'native' and (v.get('tentative') or v['witness'].get('test')):
            # (also: several failed obligations of one function confirmed by the SAME concrete input)
            key = (v['unit'], v['fn'], v['witness'].get('test'))
            if key in grouped:
                grouped[key].setdefault('also_failed', []).append(v['obligation'])
                res.violations.remove(v)
            else:
                grouped[key] = v
    for v in grouped.values():
        if v.get('also_failed') and v.get('replay') and os.path.exists(v['replay']):
            d = json.load(open(v['replay']))
            d['also_failed_obligations_of_the_same_function'] = v['also_failed']
            json.dump(d, open(v['replay'], 'w'), indent=1)
    for v in res.violations:
        matched = None
        for k in kf:
            if k.get('unit') == v.get('unit') and k.get('fn') == v.get('fn') and (k.get('clause') or '') == (v.get('clause') or ''):
                # match=<text without blanks>: the recorded finding is THIS failing input - the failure message must show it
                if k.get('match') and k['match'] not in (v.get('rendered') or ''):
                    continue
                matched = k
                break
        if matched and v.get('witness_confirms_known', True):
            res.known.append((matched, v))
        else:
            real_viol.append(v)
    os.makedirs(os.path.join(VERIF, 'evidence'), exist_ok=True)
    os.makedirs(os.path.join(VERIF, 'replay'), exist_ok=True)
    status = 'pass'
    lines = []
    for k, v in res.known:
        lines.append('KNOWN-FINDING: property=%s %s' % (pid, re.sub(r'^property=\S+\s+', '', k['_line'])))
    for v in real_viol:
        rp = v.get('replay')
        if not rp:
            rp = os.path.join(VERIF, 'replay', '%s_%s.json' % (pid, re.sub(r'\W+', '_', v['obligation'])[:80]))
            json.dump(dict(property=pid, kind='failed-obligation', obligation=v['obligation'], unit=v.get('unit'), fn=v.get('fn'), clause=v.get('clause'),
                           verifier_reason=v.get('reason'), where=v.get('where'), verifier_output=v.get('rendered'),
                           witness=v.get('witness'), note=v.get('note', '')), open(rp, 'w'), indent=1)
        suffix = '' if v.get('witness') else ' no-failing-input-found'
        lines.append('VIOLATION property=%s replay=%s obligation="%s"%s' % (pid, rp, v['obligation'][:200], suffix))
        status = 'violation'
    if res.undecided and status != 'violation':
        status = 'undecided'
        for u in res.undecided:
            lines.append('UNDECIDED property=%s reason=%s' % (pid, u))
    wall = time.time() - t0
    level = pc['level']
    cov = dict(
        obligations=res.obligations, discharged=res.discharged,
        checker_cmd=' ; '.join(res.checker_cmds)[:4000] or 'none',
        trusted_base=sorted(set(res.trusted + pc.get('trusted_base', []))),
        functions_under_contract=res.functions,
        contract_clauses=res.clauses,
        units=res.units,
        solver_time_s=round(res.solver_s, 3),
        not_covered=pc.get('not_covered', []),
        samples=res.samples[:12] or [dict(note='no obligations ran')],
        status=status,
    )
    cov.update(res.extra)
    cov['known_findings_reported'] = [k['_line'] for k, _ in res.known]
    if level == 'model_checking':
        cov['evaluations'] = max(res.obligations, 1)
        cov['distinct_nontrivial'] = max(res.discharged, 0)
        cov['rule'] = pc.get('rule', '')
    ev = dict(property_id=pid, tier=res.tier, seed=seed, level=level, coverage=cov,
              assumptions=pc.get('assumptions', []), wall_s=round(wall, 2), violations=len(real_viol))
    json.dump(ev, open(os.path.join(VERIF, 'evidence', pid + '.json'), 'w'), indent=1)
    for l in lines:
        print(l)
    print('%s property=%s tier=%s obligations=%d discharged=%d units=%d wall=%.1fs' % (
        {'pass': 'PASS', 'violation': 'FAIL', 'undecided': 'UNDECIDED'}[status], pid, res.tier, res.obligations, res.discharged, len(res.units), wall))
    return {'pass': 0, 'violation': 1, 'undecided': 2}[status]


def run_property(pid, tier, seed):
    cfg = load_config()
    if pid not in cfg:
        print('unknown or unclaimed property', pid)
        return 2
    pc = cfg[pid]
    t0 = time.time()
    os.makedirs(os.path.join(BUILD, pid), exist_ok=True)
    lock = open(os.path.join(BUILD, pid, '.lock'), 'w')
    fcntl.flock(lock, fcntl.LOCK_EX)
    src = sync_tree(pid)
    import glob
    os.makedirs(os.path.join(VERIF, 'replay'), exist_ok=True)
    for old_rp in glob.glob(os.path.join(VERIF, 'replay', pid + '_*.json')):
        os.remove(old_rp)
    res = Result(pid, tier)
    allow = json.load(open(os.path.join(VERIF, 'contracts', 'trusted_allowlist.json')))
    for un in pc.get('verus', []):
        run_verus_unit(res, un, src, allow)
    for un in (pc.get('verus_thorough', []) if tier == 'thorough' else []):
        run_verus_unit(res, un, src, allow)
    if pc.get('audit'):
        import audit
        r, err = audit.run(src, pc['audit'])
        if err:
            res.undecided.append('assumption audit could not run: ' + err)
        else:
            res.extra['assumption_audit'] = dict(kind='lexical scan of quad-store mutation sites (an assumption check, not a proof)', sites=r['sites'],
                                                 enclosing_functions=r['functions'], not_on_allowlist=r['not_on_allowlist'])
            if r['not_on_allowlist']:
                res.undecided.append('assumption audit: quad-store mutation site(s) in function(s) outside the committed allow-list: %s - the assumed frame contracts are no longer credible' % ', '.join(r['not_on_allowlist']))
    kus = list(pc.get('kani', []))
    if tier == 'thorough':
        kus += pc.get('kani_thorough', [])
    for ku in kus:
        KU.run_kani_unit(res, ku, src, tier, BUILD, VERIF)
    if pc.get('bounded') or (tier == 'thorough' and pc.get('bounded_thorough')):
        import witness
        witness.run_bounded_units(res, pc, src, BUILD, VERIF, tier)
    # witness search for verus violations
    if res.violations:
        import witness
        witness.search(res, pc, src, BUILD, VERIF)
    for f in res.functions[:6]:
        for c in f.get('clauses', [])[:2]:
            res.samples.append(dict(obligation='%s %s' % (f['fn'], c['kind']), clause=c['text']))
    return finish(res, cfg, t0, seed)


def main():
    ap = argparse.ArgumentParser()
    ap.add_argument('property', nargs='?')
    ap.add_argument('--tier', default=os.environ.get('VERIF_TIER', 'quick'))
    ap.add_argument('--replay')
    ap.add_argument('--setup', action='store_true')
    ap.add_argument('--clean', action='store_true')
    ap.add_argument('--witness-selfcheck', action='store_true', help='development aid: run every witness test of the property on the current tree (all must pass on a tree where the property holds)')
    a = ap.parse_args()
    seed = int(os.environ.get('VERIF_SEED', '0') or 0)
    if a.clean:
        shutil.rmtree(BUILD, ignore_errors=True)
        return 0
    if a.setup:
        os.makedirs(BUILD, exist_ok=True)
        subprocess.run(['verus', '--version'], check=True)
        return KU.setup(BUILD, VERIF, REPO)
    if a.witness_selfcheck:
        import witness
        return witness.selfcheck(a.property, load_config(), BUILD, VERIF)
    if a.replay:
        import witness
        return witness.replay(a.property, a.replay, BUILD, VERIF, REPO)
    if a.tier not in ('quick', 'thorough'):
        a.tier = 'quick'
    return run_property(a.property, a.tier, seed)


if __name__ == '__main__':
    sys.exit(main())
