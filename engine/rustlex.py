"""Minimal Rust token scanner: enough to find items and match braces reliably.

Tokens: (kind, text, start, end) with kind in
  ws, lcomment, bcomment, str, rawstr, char, lifetime, ident, num, punct
Offsets are byte offsets into the (str) source; the source is handled as a Python str.
"""
import re

IDENT_START = re.compile(r'[A-Za-z_\u0080-\U0010ffff]')
IDENT_RE = re.compile(r'[A-Za-z_\u0080-\U0010ffff][A-Za-z0-9_\u0080-\U0010ffff]*')
NUM_RE = re.compile(r'[0-9][0-9A-Za-z_]*(\.[0-9][0-9A-Za-z_]*)?')


class LexError(Exception):
    pass


def lex(src):
    toks = []
    i, n = 0, len(src)
    while i < n:
        c = src[i]
        if c.isspace():
            j = i + 1
            while j < n and src[j].isspace():
                j += 1
            toks.append(('ws', src[i:j], i, j)); i = j; continue
        if src.startswith('//', i):
            j = src.find('\n', i)
            if j < 0:
                j = n
            toks.append(('lcomment', src[i:j], i, j)); i = j; continue
        if src.startswith('/*', i):
            depth, j = 1, i + 2
            while j < n and depth:
                if src.startswith('/*', j):
                    depth += 1; j += 2
                elif src.startswith('*/', j):
                    depth -= 1; j += 2
                else:
                    j += 1
            toks.append(('bcomment', src[i:j], i, j)); i = j; continue
        # raw strings r"..", r#".."#, br"..", br#".."#
        m = re.match(r'b?r(#*)"', src[i:i + 40])
        if m:
            hashes = m.group(1)
            close = '"' + hashes
            j = src.find(close, i + m.end())
            if j < 0:
                raise LexError('unterminated raw string at %d' % i)
            j += len(close)
            toks.append(('rawstr', src[i:j], i, j)); i = j; continue
        if c == '"' or (c == 'b' and i + 1 < n and src[i + 1] == '"'):
            j = i + (2 if c == 'b' else 1)
            while j < n and src[j] != '"':
                j += 2 if src[j] == '\\' else 1
            j += 1
            toks.append(('str', src[i:j], i, j)); i = j; continue
        if c == "'" or (c == 'b' and i + 1 < n and src[i + 1] == "'"):
            k = i + (1 if c == 'b' else 0)
            # char literal or lifetime?
            if k + 1 < n and src[k + 1] == '\\':
                j = k + 3
                while j < n and src[j] != "'":
                    j += 1
                j += 1
                toks.append(('char', src[i:j], i, j)); i = j; continue
            if k + 2 < n and src[k + 2] == "'":
                j = k + 3
                toks.append(('char', src[i:j], i, j)); i = j; continue
            m = IDENT_RE.match(src, k + 1)
            if m:
                toks.append(('lifetime', src[i:m.end()], i, m.end())); i = m.end(); continue
            raise LexError('bad quote at %d' % i)
        if IDENT_START.match(c):
            m = IDENT_RE.match(src, i)
            toks.append(('ident', m.group(0), i, m.end())); i = m.end(); continue
        if c.isdigit():
            m = NUM_RE.match(src, i)
            j = m.end()
            # don't swallow `..` of ranges or method calls on ints: NUM_RE only takes .digit
            toks.append(('num', src[i:j], i, j)); i = j; continue
        toks.append(('punct', c, i, i + 1)); i += 1
    return toks


def code_tokens(toks):
    """indices of tokens that are not whitespace/comments"""
    return [k for k, t in enumerate(toks) if t[0] not in ('ws', 'lcomment', 'bcomment')]


OPEN = {'(': ')', '[': ']', '{': '}'}
CLOSE = {')': '(', ']': '[', '}': '{'}


def match_close(toks, k):
    """toks[k] is an opening bracket token; return index of its closing token."""
    assert toks[k][0] == 'punct' and toks[k][1] in OPEN, toks[k]
    depth = 0
    for j in range(k, len(toks)):
        t = toks[j]
        if t[0] != 'punct':
            continue
        if t[1] in OPEN:
            depth += 1
        elif t[1] in CLOSE:
            depth -= 1
            if depth == 0:
                return j
    raise LexError('unbalanced bracket from token %d' % k)


def normalise(text):
    """whitespace/comment-insensitive rendering of a Rust fragment."""
    out = []
    for t in lex(text):
        if t[0] in ('ws', 'lcomment', 'bcomment'):
            continue
        out.append(t[1])
    return ' '.join(out)
