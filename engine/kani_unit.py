"""Kani units: harness modules overlaid on a COPY of the working tree, `cargo kani` on the real
crates, result parsing, concrete playback as replay."""
import json
import os
import re
import shutil
import subprocess
import time

CRATE_FLAGS = {
    'kolibrie': ['-Z', 'unstable-options', '--ignore-global-asm'],
}


def _env():
    env = dict(os.environ)
    env['CARGO_NET_OFFLINE'] = 'true'
    env.pop('RUSTUP_TOOLCHAIN', None)
    return env


def mount(src, BUILD, VERIF, pid, ku):
    """copy harness file next to the build and append the cfg(kani) mod line to the mount file (in the copy)."""
    hsrc = os.path.join(VERIF, ku['file'])
    hdir = os.path.join(BUILD, pid, 'kani')
    os.makedirs(hdir, exist_ok=True)
    hdst = os.path.join(hdir, os.path.basename(ku['file']))
    shutil.copy(hsrc, hdst)
    mfile = os.path.join(src, ku['mount'])
    if not os.path.exists(mfile):
        return None, 'anchor drift: mount file %s missing' % ku['mount']
    line = '\n#[cfg(kani)] #[path = "%s"] mod %s;\n' % (hdst, ku['module'])
    txt = open(mfile, encoding='utf-8').read()
    if line.strip() not in txt:
        with open(mfile, 'a', encoding='utf-8') as f:
            f.write(line)
    return hdst, None


CHECK_RE = re.compile(r'Check (\d+): (\S+)\s*\n\s*- Status: (\w+)\s*\n\s*- Description: "(.*)"\s*\n(?:\s*- Location: (.*)\n)?')


def parse_output(out):
    """-> {harness: dict(checks=[...], verdict='SUCCESSFUL'|'FAILED'|None, time=float)}   (regular or terse format)"""
    if re.search(r'^Thread \d+: Checking harness', out, re.M):
        return parse_terse(out)
    res = {}
    parts = re.split(r'^Checking harness (\S+?)\.\.\.\s*$', out, flags=re.M)
    # parts: [pre, name1, body1, name2, body2...]
    for i in range(1, len(parts), 2):
        name = parts[i]
        body = parts[i + 1]
        checks = []
        for m in CHECK_RE.finditer(body):
            checks.append(dict(n=int(m.group(1)), name=m.group(2), status=m.group(3), desc=m.group(4).strip('"'), loc=(m.group(5) or '').strip()))
        vm = re.search(r'VERIFICATION:- (\w+)', body)
        tm = re.search(r'Verification Time: ([\d.]+)s', body)
        res[name.split('::')[-1]] = dict(full=name, checks=checks, verdict=vm.group(1) if vm else None, time=float(tm.group(1)) if tm else None)
    return res


def parse_terse(out):
    """terse (-j) format: per-thread blocks; only failed checks are listed, totals are given as counts."""
    res = {}
    cur = {}
    # split into thread blocks
    blocks = re.split(r'^Thread (\d+): ', out, flags=re.M)
    for i in range(1, len(blocks), 2):
        th, body = blocks[i], blocks[i + 1]
        m = re.match(r'Checking harness (\S+?)\.\.\.', body)
        if m:
            cur[th] = m.group(1)
            continue
        name = cur.get(th)
        if not name:
            continue
        vm = re.search(r'VERIFICATION:- (\w+)', body)
        tm = re.search(r'Verification Time: ([\d.]+)s', body)
        cm = re.search(r'\*\* (\d+) of (\d+) failed(?: \(([^)]*)\))?', body)
        cov = re.search(r'\*\* (\d+) of (\d+) cover properties satisfied(?: \(([^)]*)\))?', body)
        checks = []
        nfail = int(cm.group(1)) if cm else 0
        ntot = int(cm.group(2)) if cm else 0
        extra = cm.group(3) if cm and cm.group(3) else ''
        nund = int(re.search(r'(\d+) undetermined', extra).group(1)) if 'undetermined' in extra else 0
        nunr = int(re.search(r'(\d+) unreachable', extra).group(1)) if 'unreachable' in extra else 0
        fails = re.findall(r'Failed Checks: (.*)\n\s*File: (.*)', body)
        k = 0
        for desc, loc in fails:
            k += 1
            checks.append(dict(n=k, name='assertion', status='FAILURE', desc=desc.strip().strip('"'), loc=loc.strip()))
        for j in range(nund):
            k += 1
            checks.append(dict(n=k, name='undetermined', status='UNDETERMINED', desc='', loc=''))
        for j in range(nunr):
            k += 1
            checks.append(dict(n=k, name='unreachable', status='UNREACHABLE', desc='', loc=''))
        for j in range(max(0, ntot - len(fails) - nund - nunr)):
            k += 1
            checks.append(dict(n=k, name='assertion', status='SUCCESS', desc='', loc=''))
        if cov:
            sat, tot = int(cov.group(1)), int(cov.group(2))
            for j in range(tot):
                k += 1
                checks.append(dict(n=k, name='x.cover.%d' % j, status='SATISFIED' if j < sat else 'UNSATISFIABLE', desc='cover %d of %d' % (j + 1, tot), loc=''))
        res[name.split('::')[-1]] = dict(full=name, checks=checks, verdict=vm.group(1) if vm else None, time=float(tm.group(1)) if tm else None)
    return res


def run_kani(src, BUILD, crate, harnesses, extra_flags, timeout, log_path, jobs=None):
    cmd = ['cargo', 'kani', '-p', crate, '--target-dir', os.path.join(BUILD, 'kani-target-' + crate)]
    cmd += CRATE_FLAGS.get(crate, [])
    cmd += extra_flags
    for h in harnesses:
        cmd += ['--harness', h]
    if jobs and len(harnesses) > 1:
        cmd += ['-j', str(jobs), '--output-format', 'terse']
    t0 = time.time()
    import signal
    with open(log_path, 'w') as lf:
        pr = subprocess.Popen(cmd, cwd=src, env=_env(), stdout=lf, stderr=subprocess.STDOUT, start_new_session=True)
        try:
            rc = pr.wait(timeout=timeout)
        except subprocess.TimeoutExpired:
            rc = None
            try:
                os.killpg(pr.pid, signal.SIGKILL)
            except Exception:
                pass
            pr.wait()
    out = open(log_path, errors='replace').read()
    return dict(cmd='CARGO_NET_OFFLINE=true ' + ' '.join(cmd), rc=rc, out=out, wall_s=time.time() - t0)


def run_kani_unit(res, ku, src, tier, BUILD, VERIF):
    pid = res.pid
    info = dict(unit=ku['name'], back_end='kani/cbmc', crate=ku['crate'], harnesses=ku['harnesses'], strength=ku.get('strength', 'Pfull'), status='?')
    res.units.append(info)
    hdst, err = mount(src, BUILD, VERIF, pid, ku)
    if err:
        info['status'] = 'undecided'
        res.undecided.append('unit %s: %s' % (ku['name'], err))
        return
    log = os.path.join(BUILD, pid, 'kani', ku['name'] + '.log')
    timeout = ku.get('timeout_s', 1800)
    r = run_kani(src, BUILD, ku['crate'], ku['harnesses'], ku.get('flags', []), timeout, log, jobs=ku.get('jobs'))
    res.checker_cmds.append(r['cmd'])
    info['wall_s'] = round(r['wall_s'], 1)
    info['log'] = log
    optional = bool(ku.get('optional'))
    if r['rc'] is None and not optional:
        info['status'] = 'undecided'
        res.undecided.append('unit %s: cargo kani timed out after %ds (bound not completed - not a pass)' % (ku['name'], timeout))
        return
    parsed = parse_output(r['out'])
    if optional:
        # best-effort deep bounds: a harness that did not finish within the cap is reported as NOT RUN, never as passed
        # (a verdict without any check result is CBMC giving up - out of memory, crash -, not a completed bound)
        done = [h for h in ku['harnesses'] if parsed.get(h) and parsed[h]['verdict'] and parsed[h]['checks']]
        not_done = [h for h in ku['harnesses'] if h not in done]
        info['bounds_not_completed'] = not_done
        res.extra.setdefault('bounds_not_completed', []).extend(not_done)
        ku = dict(ku)
        ku['harnesses'] = done
        info['harnesses'] = done
        if not done:
            info['status'] = 'not-run'
            return
    if not parsed:
        info['status'] = 'undecided'
        tail = re.sub(r'\s+', ' ', r['out'][-600:])
        res.undecided.append('unit %s: kani produced no harness results (build failure of the copied tree or anchor drift): %s' % (ku['name'], tail))
        return
    n_checks = n_ok = 0
    failed = []
    undet = []
    covers_bad = []
    for h in ku['harnesses']:
        hr = parsed.get(h)
        if hr is None:
            undet.append('%s: no result' % h)
            continue
        res.solver_s += hr['time'] or 0.0
        for c in hr['checks']:
            if '.cover.' in c['name'] or c['status'] in ('SATISFIED', 'UNSATISFIABLE', 'UNREACHABLE') and 'cover' in c['name']:
                if c['status'] != 'SATISFIED':
                    covers_bad.append('%s: cover "%s" %s' % (h, c['desc'], c['status']))
                continue
            n_checks += 1
            if c['status'] == 'SUCCESS':
                n_ok += 1
            elif c['status'] == 'FAILURE':
                if c['desc'].startswith('unwinding assertion'):
                    undet.append('%s: unwinding assertion failed (bound too small): %s' % (h, c['loc']))
                else:
                    failed.append((h, c))
            elif c['status'] == 'UNREACHABLE':
                n_ok += 1   # vacuously true check on dead code; counted, reported separately
                info['unreachable_checks'] = info.get('unreachable_checks', 0) + 1
            else:
                undet.append('%s: check %s is %s (%s)' % (h, c['name'], c['status'], c['desc'][:80]))
        if hr['verdict'] is None:
            undet.append('%s: no verdict' % h)
        elif not hr['checks']:
            undet.append('%s: CBMC produced no check results (verdict %s: out of memory or crash) - not a completed bound' % (h, hr['verdict']))
        info.setdefault('per_harness', {})[h] = dict(checks=len(hr['checks']), verdict=hr['verdict'], time_s=hr['time'])
        if len(res.samples) < 12 and hr['checks']:
            c0 = [c for c in hr['checks'] if c['desc'] and 'assertion' in c['name']][:2]
            for c in c0:
                res.samples.append(dict(obligation='kani %s' % h, clause=c['desc'], status=c['status']))
    res.obligations += n_checks
    res.discharged += n_ok
    info['checks'] = n_checks
    info['checks_ok'] = n_ok
    for f in ku.get('functions', []):
        res.functions.append(dict(file=f['file'], fn=f['fn'], back_end='kani/cbmc', strength=ku.get('strength', 'Pfull'), harnesses=ku['harnesses'],
                                  rewrites=[], clauses=[]))
    if failed:
        info['status'] = 'violation'
        seen = set()
        for h, c in failed:
            ob = '%s/%s :: %s' % (ku['name'], h, c['desc'] or c['name'])
            if ob in seen:
                continue
            seen.add(ob)
            v = dict(unit=ku['name'], fn=h, clause=c['desc'] or c['name'], obligation=ob, reason='kani FAILURE: ' + c['name'], where=c['loc'],
                     rendered='Check %d: %s\n - Status: FAILURE\n - Description: "%s"\n - Location: %s' % (c['n'], c['name'], c['desc'], c['loc']), back_end='kani')
            res.violations.append(v)
        # concrete playback per failing harness
        for h in sorted(set(h for h, _ in failed)):
            pb = playback(src, BUILD, pid, ku, h)
            for v in res.violations:
                if v.get('unit') == ku['name'] and v.get('fn') == h and pb:
                    v['witness'] = pb
                    rp = os.path.join(VERIF, 'replay', '%s_%s.json' % (pid, re.sub(r'\W+', '_', v['obligation'])[:80]))
                    json.dump(dict(property=pid, kind='kani-playback', obligation=v['obligation'], unit=ku['name'], harness=h, ku=ku,
                                   verifier_reason=v['reason'], verifier_output=v['rendered'], witness=pb), open(rp, 'w'), indent=1)
                    v['replay'] = rp
        return
    if undet or covers_bad:
        info['status'] = 'undecided'
        for u in (undet + covers_bad)[:5]:
            res.undecided.append('unit %s: %s' % (ku['name'], u))
        return
    if n_checks == 0:
        info['status'] = 'undecided'
        res.undecided.append('unit %s: zero checks generated' % ku['name'])
        return
    info['status'] = 'pass'


def playback(src, BUILD, pid, ku, harness):
    """re-run the failing harness with concrete playback, inject the generated unit test into the COPY of the
    harness file and execute it natively against the copied tree.  Returns witness dict or None."""
    log = os.path.join(BUILD, pid, 'kani', ku['name'] + '.' + harness + '.playback.log')
    flags = list(ku.get('flags', [])) + ['-Z', 'concrete-playback', '--concrete-playback=inplace']
    r = run_kani(src, BUILD, ku['crate'], [harness], flags, ku.get('timeout_s', 1800), log)
    hfile = os.path.join(BUILD, pid, 'kani', os.path.basename(ku['file']))
    txt = open(hfile, encoding='utf-8').read()
    m = re.search(r'fn (kani_concrete_playback_%s\w*)\s*\(\)\s*\{(.*?)\n\s*\}\s*\n' % re.escape(harness), txt, re.S)
    if not m:
        return None
    test_name = m.group(1)
    test_src = m.group(0)
    # run natively
    cmd = ['cargo', 'kani', 'playback', '-Z', 'concrete-playback', '-p', ku['crate']]
    cmd += ['--', test_name]
    env = _env()
    env['CARGO_TARGET_DIR'] = os.path.join(BUILD, 'kani-playback-target')
    env['CARGO_PROFILE_DEV_LTO'] = 'off'
    env['CARGO_PROFILE_TEST_LTO'] = 'off'
    env['RUST_BACKTRACE'] = '0'
    log2 = os.path.join(BUILD, pid, 'kani', ku['name'] + '.' + harness + '.native.log')
    try:
        p = subprocess.run(cmd, cwd=src, env=env, capture_output=True, text=True, timeout=3600)
        out = p.stdout + p.stderr
    except subprocess.TimeoutExpired:
        out = 'timeout'
    open(log2, 'w').write(out)
    reproduced = bool(re.search(r'test \S*%s \.\.\. FAILED' % re.escape(test_name), out))
    pm = re.search(r"panicked at [^\n]*\n([^\n]*)", out)
    return dict(kind='kani-playback', harness=harness, test=test_name, concrete_test=test_src, reproduced_natively=reproduced,
                panic=pm.group(1).strip() if pm else '', cmd='CARGO_NET_OFFLINE=true CARGO_PROFILE_DEV_LTO=off CARGO_PROFILE_TEST_LTO=off ' + ' '.join(cmd))


def replay(pid, d, BUILD, VERIF, REPO):
    import main as M
    src = M.sync_tree(pid)
    ku = d['ku']
    hdst, err = mount(src, BUILD, VERIF, pid, ku)
    if err:
        print('UNDECIDED', err)
        return 2
    # append the recorded concrete test to the copied harness file and run it natively
    with open(hdst, 'a', encoding='utf-8') as f:
        f.write('\n#[test]\n' + d['witness']['concrete_test'] + '\n')
    cmd = ['cargo', 'kani', 'playback', '-Z', 'concrete-playback', '-p', ku['crate'], '--', d['witness']['test']]
    env = _env()
    env['CARGO_TARGET_DIR'] = os.path.join(BUILD, 'kani-playback-target')
    env['CARGO_PROFILE_DEV_LTO'] = 'off'
    env['CARGO_PROFILE_TEST_LTO'] = 'off'
    p = subprocess.run(cmd, cwd=src, env=env, capture_output=True, text=True)
    out = p.stdout + p.stderr
    print(out[-3000:])
    if re.search(r'test \S*%s \.\.\. FAILED' % re.escape(d['witness']['test']), out):
        print('REPLAYED property=%s obligation="%s"' % (pid, d['obligation']))
        return 1
    print('NOT-REPRODUCED property=%s obligation="%s"' % (pid, d['obligation']))
    return 0


def setup(BUILD, VERIF, REPO):
    """warm the Kani target directories (dependencies only need building once)."""
    import main as M
    cfg = M.load_config()
    rc = 0
    crates = {}
    for pid, pc in cfg.items():
        for ku in pc.get('kani', []):
            crates.setdefault(ku['crate'], (pid, ku))
    for crate, (pid, ku) in crates.items():
        src = M.sync_tree(pid)
        hdst, err = mount(src, BUILD, VERIF, pid, ku)
        log = os.path.join(BUILD, pid, 'kani', 'setup.log')
        r = run_kani(src, BUILD, crate, ['verif_no_such_harness_warmup'], ['--only-codegen'] + ku.get('flags', []), 3600, log)
        print('setup: warmed kani target for crate %s in %.0fs (rc=%s)' % (crate, r['wall_s'], r['rc']))
    return rc
