def run_kani_unit(res, ku, src, tier, BUILD, VERIF):
    raise NotImplementedError
def setup(BUILD, VERIF, REPO):
    return 0
