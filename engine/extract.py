"""Mechanical extraction of items from /repo sources + the closed list of rewrites R1-R6.

Nothing here understands Rust beyond tokens and bracket matching.  Any situation the
code below does not recognise raises ExtractError, which the caller turns into
UNDECIDED (exit 2) - never into a pass and never into an alarm.
"""
import hashlib
import re
from rustlex import lex, code_tokens, match_close, normalise, OPEN, CLOSE


class ExtractError(Exception):
    pass


class Source:
    def __init__(self, path, text):
        self.path = path
        self.text = text
        self.toks = lex(text)
        self.code = code_tokens(self.toks)            # indices into toks
        self.pos_in_code = {k: i for i, k in enumerate(self.code)}

    def line_of(self, off):
        return self.text.count('\n', 0, off) + 1

    # ---- navigation over code tokens (ci = index into self.code) -------------------
    def tok(self, ci):
        return self.toks[self.code[ci]]

    def is_(self, ci, kind, text=None):
        if ci < 0 or ci >= len(self.code):
            return False
        t = self.tok(ci)
        return t[0] == kind and (text is None or t[1] == text)

    def close_of(self, ci):
        k = match_close(self.toks, self.code[ci])
        return self.pos_in_code[k]

    # ---- impl blocks ----------------------------------------------------------------
    def impl_blocks(self):
        """yield (header_normalised, ci_open_brace, ci_close_brace)"""
        out = []
        for ci in range(len(self.code)):
            if not self.is_(ci, 'ident', 'impl'):
                continue
            if ci > 0:
                p = self.tok(ci - 1)
                if not (p[1] in ('}', ';', ']') or (p[0] == 'ident' and p[1] == 'unsafe')):
                    continue
            # header up to '{' at angle/paren depth 0
            j = ci + 1
            depth = 0
            hdr = []
            ok = False
            while j < len(self.code):
                t = self.tok(j)
                if t[0] == 'punct' and t[1] in '([':
                    j2 = self.close_of(j)
                    hdr += [self.tok(x)[1] for x in range(j, j2 + 1)]
                    j = j2 + 1
                    continue
                if t[0] == 'punct' and t[1] == '{':
                    ok = True
                    break
                if t[0] == 'punct' and t[1] == ';':
                    break
                hdr.append(t[1])
                j += 1
            if not ok:
                continue
            header = ' '.join(hdr)
            # strip leading generics  < ... >
            if header.startswith('<'):
                d = 0
                toks = header.split(' ')
                for x, tt in enumerate(toks):
                    if tt == '<':
                        d += 1
                    elif tt == '>':
                        d -= 1
                        if d == 0:
                            header = ' '.join(toks[x + 1:])
                            break
            # strip where clause
            header = re.split(r'\bwhere\b', header)[0].strip()
            out.append((header, j, self.close_of(j)))
        return out

    def find_fn(self, path):
        """path: 'name' (free fn, any module depth outside impl/trait/fn bodies),
        'Type::name' (inherent impl), 'Trait for Type::name' (trait impl).
        Returns dict(sig_start, sig_end, body_open, body_close) as code indices."""
        if '::' in path:
            owner, name = path.rsplit('::', 1)
            owner_n = normalise(owner)
            cands = []
            for header, o, c in self.impl_blocks():
                h = header
                # drop generic args on type for comparison: Foo < T > -> Foo
                h_cmp = re.sub(r'\s*<.*>', '', h).strip()
                if h_cmp == owner_n or h == owner_n:
                    cands.append((o, c))
            found = []
            for o, c in cands:
                found += self._fns_in(o + 1, c, name)
        else:
            name = path
            found = []
            # free functions: not inside any impl block / trait block / fn body
            spans = [(o, c) for _, o, c in self.impl_blocks()]
            for f in self._fns_in(0, len(self.code), name, top_only=True):
                if any(o < f['fn_ci'] < c for o, c in spans):
                    continue
                found.append(f)
        if len(found) != 1:
            raise ExtractError('anchor drift: %d definitions of fn %s in %s' % (len(found), path, self.path))
        return found[0]

    def _fns_in(self, lo, hi, name, top_only=False):
        """functions named `name` whose `fn` token sits at brace depth 0 relative to [lo,hi)
        (top_only: relative to file, but descending into `mod x { }` blocks)."""
        res = []
        ci = lo
        while ci < hi:
            t = self.tok(ci)
            if t[0] == 'punct' and t[1] == '{':
                # descend only into mod blocks (top_only) - otherwise skip the block
                if top_only and self._is_mod_block(ci):
                    ci += 1
                    continue
                ci = self.close_of(ci) + 1
                continue
            if t[0] == 'ident' and t[1] == 'fn' and self.is_(ci + 1, 'ident', name):
                f = self._fn_at(ci)
                if f is not None:
                    res.append(f)
                    ci = f['body_close'] + 1
                    continue
            ci += 1
        return res

    def _is_mod_block(self, ci_brace):
        return self.is_(ci_brace - 2, 'ident', 'mod') and self.tok(ci_brace - 1)[0] == 'ident'

    def _fn_at(self, fn_ci):
        # signature start: walk back over qualifiers
        s = fn_ci
        while s - 1 >= 0:
            p = self.tok(s - 1)
            if p[0] == 'ident' and p[1] in ('pub', 'const', 'async', 'unsafe', 'extern'):
                s -= 1
            elif p[0] == 'punct' and p[1] == ')' and s - 2 >= 0:
                # pub(crate) / pub(super)
                o = s - 1
                while o >= 0 and not (self.tok(o)[0] == 'punct' and self.tok(o)[1] == '('):
                    o -= 1
                if o >= 1 and self.is_(o - 1, 'ident', 'pub'):
                    s = o - 1
                else:
                    break
            else:
                break
        # find body '{' : first '{' at paren depth 0 after the parameter list
        j = fn_ci + 2
        while j < len(self.code):
            t = self.tok(j)
            if t[0] == 'punct' and t[1] in '([':
                j = self.close_of(j) + 1
                continue
            if t[0] == 'punct' and t[1] == ';':
                return None     # declaration without body
            if t[0] == 'punct' and t[1] == '{':
                break
            j += 1
        else:
            return None
        return dict(fn_ci=fn_ci, sig_start=s, body_open=j, body_close=self.close_of(j))

    def text_between(self, ci_a, ci_b):
        """source text from start of code token ci_a to end of code token ci_b (inclusive)."""
        return self.text[self.tok(ci_a)[2]:self.tok(ci_b)[3]]

    # ---- type / const items ------------------------------------------------------------
    def find_item(self, kw, name):
        hits = []
        for ci in range(len(self.code) - 1):
            if self.is_(ci, 'ident', kw) and self.is_(ci + 1, 'ident', name):
                if kw == 'const' and self.is_(ci - 1, 'punct', '*'):
                    continue
                hits.append(ci)
        # keep only hits at item position (not inside a fn body): previous token after
        # qualifiers is one of } ; ] { or start
        good = []
        for ci in hits:
            s = ci
            while s - 1 >= 0 and (self.tok(s - 1)[1] in ('pub',) or
                                  (self.tok(s - 1)[1] == ')' and self.is_(s - 4, 'ident', 'pub'))):
                s = s - 1 if self.tok(s - 1)[1] == 'pub' else s - 4
            if s == 0 or self.tok(s - 1)[1] in ('}', ';', ']', '{'):
                good.append((s, ci))
        if len(good) != 1:
            raise ExtractError('anchor drift: %d definitions of %s %s in %s' % (len(good), kw, name, self.path))
        s, ci = good[0]
        # attributes directly above
        attrs = []
        a = s
        while a - 1 >= 0 and self.tok(a - 1)[1] == ']':
            # find matching '[' and the '#'
            k = a - 1
            depth = 0
            while k >= 0:
                tt = self.tok(k)[1]
                if tt == ']':
                    depth += 1
                elif tt == '[':
                    depth -= 1
                    if depth == 0:
                        break
                k -= 1
            if k >= 1 and self.tok(k - 1)[1] == '#':
                attrs.insert(0, self.text_between(k - 1, a - 1))
                a = k - 1
            else:
                break
        # end of item
        j = ci + 2
        while j < len(self.code):
            t = self.tok(j)
            if t[0] == 'punct' and t[1] in '([':
                j = self.close_of(j) + 1
                continue
            if t[0] == 'punct' and t[1] == '{':
                e = self.close_of(j)
                break
            if t[0] == 'punct' and t[1] == ';':
                e = j
                break
            j += 1
        else:
            raise ExtractError('unterminated item %s %s' % (kw, name))
        if kw == 'struct' and self.tok(e)[1] == ')' or (kw == 'struct' and self.is_(e + 1, 'punct', ';') and self.tok(e)[1] == ')'):
            e += 1
        return dict(attrs=attrs, start=s, kw_ci=ci, end=e)


# ----------------------------------------------------------------------------------------
# signatures
# ----------------------------------------------------------------------------------------
CONTRACT_KW = ('requires', 'ensures', 'decreases', 'recommends', 'returns', 'opens_invariants', 'no_unwind', 'default_ensures')


def split_template_sig(text):
    """template signature text -> (plain_sig_normalised_without_visibility, ret_name, clauses)
    clauses: list of (kw, text)"""
    toks = [t for t in lex(text) if t[0] not in ('ws', 'lcomment', 'bcomment')]
    # locate first contract keyword at bracket depth 0
    depth = 0
    cut = len(toks)
    for i, t in enumerate(toks):
        if t[0] == 'punct' and t[1] in OPEN:
            depth += 1
        elif t[0] == 'punct' and t[1] in CLOSE:
            depth -= 1
        elif depth == 0 and t[0] == 'ident' and t[1] in CONTRACT_KW:
            cut = i
            break
    sig = toks[:cut]
    rest = toks[cut:]
    # named return
    ret_name = None
    out = []
    i = 0
    while i < len(sig):
        t = sig[i]
        if t[1] == '-' and i + 1 < len(sig) and sig[i + 1][1] == '>' and i + 4 < len(sig) \
                and sig[i + 2][1] == '(' and sig[i + 3][0] == 'ident' and sig[i + 4][1] == ':' \
                and not (i + 5 < len(sig) and sig[i + 5][1] == ':'):
            ret_name = sig[i + 3][1]
            # find matching ')'
            d = 0
            j = i + 2
            while j < len(sig):
                if sig[j][1] in OPEN:
                    d += 1
                elif sig[j][1] in CLOSE:
                    d -= 1
                    if d == 0:
                        break
                j += 1
            out += [sig[i], sig[i + 1]] + sig[i + 5:j]
            i = j + 1
            continue
        out.append(t)
        i += 1
    plain = ' '.join(t[1] for t in out)
    while plain.startswith('# ['):
        # leading attribute in the template signature (e.g. #[inline], #[verifier::...])
        d = 0
        ws = plain.split(' ')
        for x, tt in enumerate(ws):
            if tt == '[':
                d += 1
            elif tt == ']':
                d -= 1
                if d == 0:
                    plain = ' '.join(ws[x + 1:])
                    break
    plain = strip_visibility(plain)
    # clauses
    clauses = []
    depth = 0
    cur_kw, cur_start = None, None
    for t in rest:
        if t[0] == 'punct' and t[1] in OPEN:
            depth += 1
        elif t[0] == 'punct' and t[1] in CLOSE:
            depth -= 1
        elif depth == 0 and t[0] == 'ident' and t[1] in CONTRACT_KW:
            if cur_kw:
                clauses.append((cur_kw, text[cur_start:t[2]].strip()))
            cur_kw, cur_start = t[1], t[3]
    if cur_kw:
        clauses.append((cur_kw, text[cur_start:].strip()))
    return plain, ret_name, clauses


def strip_visibility(norm_sig):
    s = re.sub(r'^pub \( [a-z :]+ \) ', '', norm_sig)
    s = re.sub(r'^pub ', '', s)
    return s


def real_sig(src, f):
    return strip_visibility(normalise(src.text_between(f['sig_start'], f['body_open'] - 1)))


# ----------------------------------------------------------------------------------------
# rewrites on a body (token list of the body *inside* the braces)
# ----------------------------------------------------------------------------------------
LOG_MACROS = ('debug', 'warn', 'info', 'trace', 'error', 'eprintln', 'println', 'exec_count', 'eprint', 'print')


class Body:
    """Mutable token-level view of a function body (text between the outer braces)."""

    def __init__(self, text, base_line):
        self.text = text
        self.base_line = base_line
        self.toks = lex(text)
        self.rewrites = []
        # edits: list of (offset, delete_len, insert_text); applied at the end
        self.edits = []

    def line(self, off):
        return self.base_line + self.text.count('\n', 0, off)

    def flush(self):
        """apply the pending rewrite edits so that hint anchors are matched against the REWRITTEN body"""
        if self.edits:
            self.text = self.apply()
            self.edits = []
            self.toks = lex(self.text)

    def code(self):
        return [k for k, t in enumerate(self.toks) if t[0] not in ('ws', 'lcomment', 'bcomment')]

    def apply(self):
        out = self.text
        for off, dl, ins in sorted(self.edits, key=lambda e: (e[0], -e[1]), reverse=True):
            out = out[:off] + ins + out[off + dl:]
        return out

    # -- helpers over code indices
    def _close(self, code, ci):
        k = match_close(self.toks, code[ci])
        return code.index(k)

    # R4: drop logging statements
    def r4_logging(self):
        code = self.code()
        ci = 0
        while ci < len(code) - 2:
            t = self.toks[code[ci]]
            if t[0] == 'ident' and t[1] in LOG_MACROS and self.toks[code[ci + 1]][1] == '!' \
                    and self.toks[code[ci + 2]][1] in OPEN:
                prev = self.toks[code[ci - 1]][1] if ci > 0 else '{'
                if prev in ('{', '}', ';'):
                    e = self._close(code, ci + 2)
                    if e + 1 < len(code) and self.toks[code[e + 1]][1] == ';':
                        a = t[2]
                        b = self.toks[code[e + 1]][3]
                        self.edits.append((a, b - a, '/* R4 dropped: %s!(..) */' % t[1]))
                        self.rewrites.append(dict(rule='R4 logging', line=self.line(a), what=t[1] + '!'))
                        ci = e + 2
                        continue
            ci += 1

    # R2: assert!(c, fmt..) -> assert(c)
    def r2_assert(self, as_guard=False):
        """R2: assert!(c, ..) -> assert(c)  (the runtime assertion becomes a proof obligation).
        R2g (as_guard): assert!(c, ..) -> if !(c) { guard_failed(); }  where guard_failed() is a trusted stub that does not return
        (`ensures false`): the runtime guard is kept as a guard - partial correctness: IF the function returns, the guard held - so
        that the contract can say what the guard must establish instead of demanding it from the caller."""
        code = self.code()
        for ci in range(len(code) - 2):
            t = self.toks[code[ci]]
            if t[0] == 'ident' and t[1] in ('assert', 'debug_assert') and self.toks[code[ci + 1]][1] == '!' \
                    and self.toks[code[ci + 2]][1] == '(':
                e = self._close(code, ci + 2)
                # first comma at depth 1
                depth = 0
                comma = None
                for k in range(ci + 2, e + 1):
                    tt = self.toks[code[k]]
                    if tt[0] == 'punct' and tt[1] in OPEN:
                        depth += 1
                    elif tt[0] == 'punct' and tt[1] in CLOSE:
                        depth -= 1
                    elif depth == 1 and tt[1] == ',':
                        comma = k
                        break
                a = t[2]
                bang = self.toks[code[ci + 1]]
                if as_guard:
                    cond_hi = self.toks[code[comma - 1]][3] if comma is not None else self.toks[code[e - 1]][3]
                    cond_txt = self.text[self.toks[code[ci + 3]][2]:cond_hi]
                    stmt_end = self.toks[code[e]][3]
                    self.edits.append((a, stmt_end - a, 'if !(%s) { guard_failed(); }' % cond_txt.strip()))
                    self.rewrites.append(dict(rule='R2g assert-as-guard', line=self.line(a),
                                              what='%s!(c, ..) -> if !(c) { guard_failed() }: the runtime guard stays a guard (a failed guard does not return)' % t[1]))
                    continue
                # delete 'debug_' prefix and '!'
                self.edits.append((a, bang[3] - a, 'assert'))
                if comma is not None:
                    c0 = self.toks[code[comma]][2]
                    c1 = self.toks[code[e]][2]
                    self.edits.append((c0, c1 - c0, ''))
                self.rewrites.append(dict(rule='R2 assert-macro', line=self.line(a),
                                          what='%s!(c, ..) -> assert(c): runtime assertion becomes a proof obligation' % t[1]))

    # R3: .unwrap_or_else(|| panic!(..)) -> .unwrap()
    def r3_panic_closure(self):
        code = self.code()
        for ci in range(len(code) - 6):
            t = self.toks[code[ci]]
            if t[0] == 'ident' and t[1] == 'unwrap_or_else' and self.toks[code[ci + 1]][1] == '(':
                e = self._close(code, ci + 1)
                inner = [self.toks[code[k]][1] for k in range(ci + 2, e)]
                if inner[:4] == ['|', '|', 'panic', '!']:
                    a = t[2]
                    b = self.toks[code[e]][3]
                    self.edits.append((a, b - a, 'unwrap()'))
                    self.rewrites.append(dict(rule='R3 panic-closure', line=self.line(a),
                                              what='.unwrap_or_else(|| panic!(..)) -> .unwrap()'))

    # R7: Option combinators with an inline closure literal -> their defining match
    #   X.and_then(|p| E)     => (match X { Some(p) => E, None => None })
    #   X.map(|p| E)          => (match X { Some(p) => Some(E), None => None })
    #   X.is_some_and(|p| E)  => (match X { Some(p) => E, None => false })
    #   X.map_or(D, |p| E)    => (match X { Some(p) => E, None => D })
    # only when the receiver is syntactically an Option-producing chain that the unit declares (the template lists
    # R7 in rewrites=) and the closure body contains no `return`, `?`, `break`, `continue` (control flow that a
    # closure would capture differently).  Evaluation order is unchanged: X first, then the body.
    R7_METHODS = ('and_then', 'map', 'is_some_and', 'map_or')

    def r7_option_combinators(self):
        guard = 0
        while True:
            guard += 1
            if guard > 200:
                raise ExtractError('R7: rewrite did not terminate')
            # edits must be applied one at a time because replacements nest: work on a fresh lex each round
            if self.edits:
                self.text = self.apply()
                self.edits = []
                self.toks = lex(self.text)
            code = self.code()
            T = lambda ci: self.toks[code[ci]]
            n = len(code)
            hit = None
            for ci in range(1, n - 3):
                t = T(ci)
                if t[0] == 'ident' and t[1] in self.R7_METHODS and T(ci - 1)[1] == '.' and T(ci + 1)[1] == '(':
                    close = self._close(code, ci + 1)
                    # locate the closure literal among the arguments
                    args_lo = ci + 2
                    if t[1] == 'map_or':
                        # first argument D up to ',' at depth 0
                        k = args_lo
                        depth = 0
                        while k < close:
                            tt = T(k)
                            if tt[0] == 'punct' and tt[1] in OPEN:
                                depth += 1
                            elif tt[0] == 'punct' and tt[1] in CLOSE:
                                depth -= 1
                            elif depth == 0 and tt[1] == ',':
                                break
                            k += 1
                        if k >= close:
                            continue
                        d_text = self.text[T(args_lo)[2]:T(k - 1)[3]]
                        clo = k + 1
                    else:
                        d_text = None
                        clo = args_lo
                    if T(clo)[1] != '|':
                        continue      # not an inline closure literal (e.g. a function path): leave untouched
                    # closure parameter pattern: up to the matching '|'
                    k = clo + 1
                    while k < close and T(k)[1] != '|':
                        k += 1
                    if k >= close:
                        continue
                    pat = self.text[T(clo + 1)[2]:T(k - 1)[3]] if k > clo + 1 else '_'
                    if ':' in [T(x)[1] for x in range(clo + 1, k)]:
                        raise ExtractError('R7: typed closure parameter at line %d' % self.line(t[2]))
                    body_lo = k + 1
                    body_hi = close - 1
                    # trailing comma inside the call
                    if T(body_hi)[1] == ',':
                        body_hi -= 1
                    body_txt = self.text[T(body_lo)[2]:T(body_hi)[3]]
                    for x in range(body_lo, body_hi + 1):
                        if T(x)[1] in ('return', 'break', 'continue', '?'):
                            raise ExtractError('R7: closure body with control flow at line %d' % self.line(t[2]))
                    # receiver: walk back over the postfix chain
                    r = ci - 2
                    start = None
                    KW = ('return', 'let', 'if', 'match', 'in', 'else', 'while', 'for', 'mut', 'ref', 'move')
                    while r >= 0:
                        tt = T(r)
                        if tt[0] == 'punct' and tt[1] in (')', ']'):
                            # skip to the opener
                            depth = 0
                            while r >= 0:
                                if T(r)[0] == 'punct' and T(r)[1] in CLOSE:
                                    depth += 1
                                elif T(r)[0] == 'punct' and T(r)[1] in OPEN:
                                    depth -= 1
                                    if depth == 0:
                                        break
                                r -= 1
                            start = r
                            r -= 1
                            continue
                        if tt[0] in ('ident', 'num') and tt[1] not in KW:
                            start = r
                            r -= 1
                            continue
                        if tt[1] in ('.', '?'):
                            r -= 1
                            continue
                        if tt[1] == ':' and r >= 1 and T(r - 1)[1] == ':':
                            r -= 2
                            continue
                        break
                    if start is None:
                        raise ExtractError('R7: cannot find receiver at line %d' % self.line(t[2]))
                    recv_txt = self.text[T(start)[2]:T(ci - 2)[3]]
                    if re.search(r'\.\s*(iter|into_iter|iter_mut|chars|bytes|keys|values|lines|drain)\s*\(\s*\)\s*$', recv_txt):
                        raise ExtractError('R7: `.%s` on an iterator at line %d is not an Option combinator (only Option receivers are desugared)' % (t[1], self.line(t[2])))
                    if t[1] == 'and_then':
                        rep = '(match %s { Some(%s) => %s, None => None })' % (recv_txt, pat, body_txt)
                    elif t[1] == 'map':
                        rep = '(match %s { Some(%s) => Some(%s), None => None })' % (recv_txt, pat, body_txt)
                    elif t[1] == 'is_some_and':
                        rep = '(match %s { Some(%s) => %s, None => false })' % (recv_txt, pat, body_txt)
                    else:
                        rep = '(match %s { Some(%s) => %s, None => %s })' % (recv_txt, pat, body_txt, d_text)
                    hit = (T(start)[2], T(close)[3], rep, t)
                    break
            if not hit:
                return
            a, b, rep, t = hit
            self.rewrites.append(dict(rule='R7 option-combinator', line=self.line(t[2]), what='.%s(|..| ..) -> defining match' % t[1]))
            self.text = self.text[:a] + rep + self.text[b:]
            self.toks = lex(self.text)

    # R9: I.filter(|p| E).count()  ->  { let mut n__c: usize = 0; for p__it in I { let p = &p__it; if E { n__c += 1; } } n__c }
    # (Iterator::filter hands the closure a reference to each item; count() adds one per item kept - this is their definition)
    def r9_filter_count(self):
        guard = 0
        while True:
            guard += 1
            if guard > 50:
                raise ExtractError('R9: rewrite did not terminate')
            code = self.code()
            T = lambda ci: self.toks[code[ci]]
            n = len(code)
            hit = None
            for ci in range(1, n - 6):
                t = T(ci)
                if t[0] == 'ident' and t[1] == 'filter' and T(ci - 1)[1] == '.' and T(ci + 1)[1] == '(' and T(ci + 2)[1] == '|':
                    close = self._close(code, ci + 1)
                    if not (close + 4 < n + 1 and T(close + 1)[1] == '.' and T(close + 2)[1] == 'count' and T(close + 3)[1] == '(' and T(close + 4)[1] == ')'):
                        continue
                    k = ci + 3
                    while k < close and T(k)[1] != '|':
                        k += 1
                    pat = self.text[T(ci + 3)[2]:T(k - 1)[3]]
                    if not re.fullmatch(r'[A-Za-z_][A-Za-z0-9_]*', pat):
                        raise ExtractError('R9: closure parameter is not a plain identifier at line %d' % self.line(t[2]))
                    body_hi = close - 1
                    if T(body_hi)[1] == ',':
                        body_hi -= 1
                    body_txt = self.text[T(k + 1)[2]:T(body_hi)[3]]
                    for x in range(k + 1, body_hi + 1):
                        if T(x)[1] in ('return', 'break', 'continue', '?'):
                            raise ExtractError('R9: closure body with control flow at line %d' % self.line(t[2]))
                    # receiver chain (the iterator expression)
                    r = ci - 2
                    start = None
                    KW = ('return', 'let', 'if', 'match', 'in', 'else', 'while', 'for', 'mut', 'ref', 'move')
                    while r >= 0:
                        tt = T(r)
                        if tt[0] == 'punct' and tt[1] in (')', ']'):
                            depth = 0
                            while r >= 0:
                                if T(r)[0] == 'punct' and T(r)[1] in CLOSE:
                                    depth += 1
                                elif T(r)[0] == 'punct' and T(r)[1] in OPEN:
                                    depth -= 1
                                    if depth == 0:
                                        break
                                r -= 1
                            start = r
                            r -= 1
                            continue
                        if tt[0] in ('ident', 'num') and tt[1] not in KW:
                            start = r
                            r -= 1
                            continue
                        if tt[1] in ('.', '?'):
                            r -= 1
                            continue
                        if tt[1] == ':' and r >= 1 and T(r - 1)[1] == ':':
                            r -= 2
                            continue
                        break
                    if start is None:
                        raise ExtractError('R9: cannot find receiver at line %d' % self.line(t[2]))
                    recv = self.text[T(start)[2]:T(ci - 2)[3]]
                    rep = '{ let mut n__c: usize = 0; for %s__it in %s { let %s = &%s__it; if %s { n__c += 1; } } n__c }' % (pat, recv, pat, pat, body_txt)
                    hit = (T(start)[2], T(close + 4)[3], rep, t)
                    break
            if not hit:
                return
            a, b, rep, t = hit
            self.rewrites.append(dict(rule='R9 filter-count', line=self.line(t[2]), what='.filter(|p| E).count() -> counting for-loop'))
            self.text = self.text[:a] + rep + self.text[b:]
            self.toks = lex(self.text)

    # R8: V.extend(I.map(|PAT| E));  ->  for PAT in I { V.push(E); }     (Vec::extend pushes the items in order;
    #     Iterator::map applies the closure to each item - their definition).  A `&x` closure pattern becomes
    #     `x__r` + `let x = *x__r;` directly (that is R1 applied to the generated loop).
    def r8_extend_map(self):
        guard = 0
        while True:
            guard += 1
            if guard > 100:
                raise ExtractError('R8: rewrite did not terminate')
            code = self.code()
            T = lambda ci: self.toks[code[ci]]
            n = len(code)
            hit = None
            for ci in range(1, n - 8):
                t = T(ci)
                if not (t[0] == 'ident' and t[1] == 'extend' and T(ci - 1)[1] == '.' and T(ci + 1)[1] == '('):
                    continue
                close = self._close(code, ci + 1)
                if not (close + 1 < n and T(close + 1)[1] == ';'):
                    continue
                # receiver V: a plain identifier directly before '.extend', at statement start
                if not (T(ci - 2)[0] == 'ident' and (ci - 3 < 0 or T(ci - 3)[1] in ('{', '}', ';'))):
                    continue
                vec_name = T(ci - 2)[1]
                # the argument must end with  .map(|PAT| E)
                # find '.map(' at depth 1 inside the argument such that its ')' is the last token before `close`
                m_ci = None
                depth = 0
                for k in range(ci + 2, close):
                    tt = T(k)
                    if tt[0] == 'punct' and tt[1] in OPEN:
                        depth += 1
                    elif tt[0] == 'punct' and tt[1] in CLOSE:
                        depth -= 1
                    elif depth == 0 and tt[0] == 'ident' and tt[1] == 'map' and T(k - 1)[1] == '.' and T(k + 1)[1] == '(':
                        if self._close(code, k + 1) == close - 1 or (T(close - 1)[1] == ',' and self._close(code, k + 1) == close - 2):
                            m_ci = k
                if m_ci is None:
                    continue
                mclose = self._close(code, m_ci + 1)
                if T(m_ci + 2)[1] != '|':
                    continue
                k = m_ci + 3
                while k < mclose and T(k)[1] != '|':
                    k += 1
                pat = self.text[T(m_ci + 3)[2]:T(k - 1)[3]].strip()
                body_hi = mclose - 1
                if T(body_hi)[1] == ',':
                    body_hi -= 1
                body_txt = self.text[T(k + 1)[2]:T(body_hi)[3]]
                for x in range(k + 1, body_hi + 1):
                    if T(x)[1] in ('return', 'break', 'continue', '?'):
                        raise ExtractError('R8: closure body with control flow at line %d' % self.line(t[2]))
                iter_txt = self.text[T(ci + 2)[2]:T(m_ci - 2)[3]]
                mm = re.fullmatch(r'&\s*([A-Za-z_][A-Za-z0-9_]*)', pat)
                if mm:
                    x = mm.group(1)
                    rep = 'for %s__r in %s { let %s = *%s__r; %s.push(%s); }' % (x, iter_txt, x, x, vec_name, body_txt)
                elif re.fullmatch(r'[A-Za-z_][A-Za-z0-9_]*', pat):
                    filt = self._split_copied_filters(iter_txt)
                    if filt is not None:
                        # R8 (filtered form): X.iter().copied().filter(|a| C1).filter(|b| C2).map(|q| E)
                        #   -> for q__r in X.iter() { let q = *q__r; if { let a = &q; C1 } { if { let b = &q; C2 } { V.push(E); } } }
                        # (copied dereferences each item, filter hands the closure a reference to the item and keeps it when the
                        #  closure says true, in order - their definition)
                        recv, conds = filt
                        inner = '%s.push(%s);' % (vec_name, body_txt)
                        for fp, fc in reversed(conds):
                            inner = 'if { let %s = &%s; %s } { %s }' % (fp, pat, fc, inner)
                        rep = 'for %s__r in %s.iter() { let %s = *%s__r; %s }' % (pat, recv, pat, pat, inner)
                    else:
                        rep = 'for %s in %s { %s.push(%s); }' % (pat, iter_txt, vec_name, body_txt)
                else:
                    raise ExtractError('R8: unsupported closure pattern `%s` at line %d' % (pat, self.line(t[2])))
                hit = (T(ci - 2)[2], T(close + 1)[3], rep, t)
                break
            if not hit:
                return
            a, b, rep, t = hit
            self.rewrites.append(dict(rule='R8 extend-map', line=self.line(t[2]), what='V.extend(I.map(|p| E)) -> for p in I { V.push(E) }'))
            self.text = self.text[:a] + rep + self.text[b:]
            self.toks = lex(self.text)

    @staticmethod
    def _split_copied_filters(iter_txt):
        """`X.iter().copied().filter(|a| C1)...` -> (X, [(a, C1), ...]) ; None when the text has another shape."""
        toks = [t for t in lex(iter_txt) if t[0] not in ('ws', 'lcomment', 'bcomment')]
        conds = []
        def close_of(i):
            depth = 0
            for k in range(i, len(toks)):
                if toks[k][0] == 'punct' and toks[k][1] in OPEN:
                    depth += 1
                elif toks[k][0] == 'punct' and toks[k][1] in CLOSE:
                    depth -= 1
                    if depth == 0:
                        return k
            return None
        # walk from the left: find `.iter().copied()` at depth 0, everything after must be .filter(|p| C) groups
        depth = 0
        pos = None
        for k in range(len(toks) - 6):
            t = toks[k]
            if t[0] == 'punct' and t[1] in OPEN:
                depth += 1
            elif t[0] == 'punct' and t[1] in CLOSE:
                depth -= 1
            elif depth == 0 and t[1] == '.' and [x[1] for x in toks[k:k + 8]] == ['.', 'iter', '(', ')', '.', 'copied', '(', ')']:
                pos = k
                break
        if pos is None or pos == 0:
            return None
        recv = iter_txt[toks[0][2]:toks[pos - 1][3]]
        k = pos + 8
        while k < len(toks):
            if not (toks[k][1] == '.' and k + 3 < len(toks) and toks[k + 1][1] == 'filter' and toks[k + 2][1] == '(' and toks[k + 3][1] == '|'):
                return None
            c = close_of(k + 2)
            if c is None or toks[k + 4][0] != 'ident' or toks[k + 5][1] != '|':
                return None
            body = iter_txt[toks[k + 6][2]:toks[c - 1][3]]
            if any(x[1] in ('return', 'break', 'continue', '?') for x in toks[k + 6:c]):
                return None
            conds.append((toks[k + 4][1], body))
            k = c + 1
        if not conds:
            return None
        return recv, conds

    # R11: inside a for-loop body,  `if C { continue; } REST`  ->  `if !(C) { REST }`   (REST = the remaining statements of
    #      the loop body; structured-control-flow equivalence - Verus' for-loops do not support `continue`)
    def r11_continue_guard(self):
        guard = 0
        while True:
            guard += 1
            if guard > 50:
                raise ExtractError('R11: rewrite did not terminate')
            code = self.code()
            T = lambda ci: self.toks[code[ci]]
            n = len(code)
            hit = None
            for ci in range(n - 4):
                if not (T(ci)[1] == '{' and T(ci + 1)[1] == 'continue' and T(ci + 2)[1] == ';' and T(ci + 3)[1] == '}'):
                    continue
                if ci + 4 < n and T(ci + 4)[1] == 'else':
                    continue
                # the `if` that owns this block: walk back to the statement start
                k = ci - 1
                depth = 0
                if_ci = None
                while k >= 0:
                    x = T(k)
                    if x[0] == 'punct' and x[1] in CLOSE:
                        depth += 1
                    elif x[0] == 'punct' and x[1] in OPEN:
                        if depth == 0:
                            break
                        depth -= 1
                    elif depth == 0 and x[1] == ';':
                        break
                    elif depth == 0 and x[1] == 'if' and (k == 0 or T(k - 1)[1] in ('{', '}', ';')):
                        if_ci = k
                    k -= 1
                if if_ci is None or k < 0 or T(k)[1] != '{':
                    continue
                body_open = k
                # the enclosing block must be the body of a `for`
                j = body_open - 1
                depth = 0
                is_for = False
                while j >= 0:
                    x = T(j)
                    if x[0] == 'punct' and x[1] in CLOSE:
                        depth += 1
                    elif x[0] == 'punct' and x[1] in OPEN:
                        if depth == 0:
                            break
                        depth -= 1
                    elif depth == 0 and x[1] == ';':
                        break
                    elif depth == 0 and x[1] == 'for':
                        is_for = True
                    j -= 1
                if not is_for:
                    continue
                body_close = self._close(code, body_open)
                cond_txt = self.text[T(if_ci + 1)[2]:T(ci - 1)[3]]
                rest_txt = self.text[T(ci + 3)[3]:T(body_close)[2]]
                if not rest_txt.strip():
                    continue
                hit = (T(if_ci)[2], T(body_close)[2], 'if !(%s) {%s}\n' % (cond_txt, rest_txt), T(ci + 1))
                break
            if not hit:
                return
            a, b, rep, t = hit
            self.rewrites.append(dict(rule='R11 continue-guard', line=self.line(t[2]), what='if C { continue; } REST -> if !(C) { REST }'))
            self.text = self.text[:a] + rep + self.text[b:]
            self.toks = lex(self.text)

    # R8 (plain form): V.extend(E);  with E a collection-valued expression without closures or iterator adapters
    #     ->  for x__e in E { V.push(x__e); }      (Extend for Vec pushes every item of E in iteration order)
    ADAPTERS = ('map', 'filter', 'filter_map', 'flat_map', 'copied', 'cloned', 'rev', 'chain', 'zip', 'iter', 'into_iter',
                'keys', 'values', 'enumerate', 'skip', 'take', 'flatten', 'peekable', 'drain')

    def r8_extend_plain(self):
        guard = 0
        while True:
            guard += 1
            if guard > 100:
                raise ExtractError('R8: rewrite did not terminate')
            code = self.code()
            T = lambda ci: self.toks[code[ci]]
            n = len(code)
            hit = None
            for ci in range(2, n - 3):
                t = T(ci)
                if not (t[0] == 'ident' and t[1] == 'extend' and T(ci - 1)[1] == '.' and T(ci + 1)[1] == '('):
                    continue
                close = self._close(code, ci + 1)
                if not (close + 1 < n and T(close + 1)[1] == ';'):
                    continue
                if not (T(ci - 2)[0] == 'ident' and (ci - 3 < 0 or T(ci - 3)[1] in ('{', '}', ';'))):
                    continue
                inner = [T(k) for k in range(ci + 2, close)]
                if not inner or any(x[1] == '|' for x in inner):
                    continue
                if any(x[0] == 'ident' and x[1] in self.ADAPTERS and i > 0 and inner[i - 1][1] == '.' for i, x in enumerate(inner)):
                    continue
                arg_txt = self.text[T(ci + 2)[2]:T(close - 1)[3]]
                rep = 'for x__e in %s { %s.push(x__e); }' % (arg_txt, T(ci - 2)[1])
                hit = (T(ci - 2)[2], T(close + 1)[3], rep, t)
                break
            if not hit:
                return
            a, b, rep, t = hit
            self.rewrites.append(dict(rule='R8 extend-plain', line=self.line(t[2]), what='V.extend(E) -> for x in E { V.push(x) }'))
            self.text = self.text[:a] + rep + self.text[b:]
            self.toks = lex(self.text)

    # R10: a body that IS the expression  E.into_iter().map(|p| F).collect()   (result type Vec<_>, from the signature)
    #     ->  let mut out__c = Vec::new(); for p in E { out__c.push(F); } out__c
    #     (into_iter yields the items in order, map applies the closure to each, collect::<Vec<_>> pushes them in order)
    def r10_map_collect_tail(self):
        code = self.code()
        T = lambda ci: self.toks[code[ci]]
        n = len(code)
        if n < 12:
            return
        # ... . into_iter ( ) . map ( | p | F ) . collect ( )
        if not (T(n - 1)[1] == ')' and T(n - 2)[1] == '(' and T(n - 3)[1] == 'collect' and T(n - 4)[1] == '.' and T(n - 5)[1] == ')'):
            return
        mopen = None
        depth = 0
        for k in range(n - 5, -1, -1):
            x = T(k)[1]
            if T(k)[0] == 'punct' and x in CLOSE:
                depth += 1
            elif T(k)[0] == 'punct' and x in OPEN:
                depth -= 1
                if depth == 0:
                    mopen = k
                    break
        if mopen is None or mopen < 6 or not (T(mopen - 1)[1] == 'map' and T(mopen - 2)[1] == '.'):
            return
        if not (T(mopen - 3)[1] == ')' and T(mopen - 4)[1] == '(' and T(mopen - 5)[1] == 'into_iter' and T(mopen - 6)[1] == '.'):
            return
        if T(mopen + 1)[1] != '|':
            return
        k = mopen + 2
        while k < n - 5 and T(k)[1] != '|':
            k += 1
        pat = self.text[T(mopen + 2)[2]:T(k - 1)[3]].strip()
        if not re.fullmatch(r'[A-Za-z_][A-Za-z0-9_]*', pat):
            raise ExtractError('R10: closure parameter is not a plain identifier at line %d' % self.line(T(mopen)[2]))
        for x in range(k + 1, n - 5):
            if T(x)[1] in ('return', 'break', 'continue', '?'):
                raise ExtractError('R10: closure body with control flow at line %d' % self.line(T(mopen)[2]))
        body_txt = self.text[T(k + 1)[2]:T(n - 6)[3]]
        recv_txt = self.text[T(0)[2]:T(mopen - 7)[3]]
        # the receiver must be one expression (no statement separators at depth 0)
        depth = 0
        for x in range(0, mopen - 6):
            y = T(x)
            if y[0] == 'punct' and y[1] in OPEN:
                depth += 1
            elif y[0] == 'punct' and y[1] in CLOSE:
                depth -= 1
            elif depth == 0 and y[1] == ';':
                return
        rep = 'let mut out__c = Vec::new(); for %s in %s { out__c.push(%s); } out__c' % (pat, recv_txt, body_txt)
        self.rewrites.append(dict(rule='R10 map-collect', line=self.line(T(mopen)[2]), what='E.into_iter().map(|p| F).collect() -> for p in E { out.push(F) }'))
        self.text = self.text[:T(0)[2]] + rep + self.text[T(n - 1)[3]:]
        self.toks = lex(self.text)

    # R1: `&x` / `&mut x`-free ref patterns: Some(&x) -> Some(x__r) + let x = *x__r;
    def r1_ref_patterns(self):
        code = self.code()
        T = lambda ci: self.toks[code[ci]]
        n = len(code)
        ci = 0
        while ci < n:
            t = T(ci)
            pat_lo = pat_hi = None
            kind = None
            if t[0] == 'ident' and t[1] == 'let' and ci > 0 and T(ci - 1)[1] in ('if', 'while'):
                kind = 'iflet'
            elif t[0] == 'ident' and t[1] == 'for':
                kind = 'for'
            elif t[0] == 'ident' and t[1] == 'let':
                kind = 'let'
            if kind in ('iflet', 'let'):
                # pattern: until '=' at depth 0 (not '==' / '=>')
                k = ci + 1
                depth = 0
                while k < n:
                    tt = T(k)
                    if tt[0] == 'punct' and tt[1] in OPEN:
                        depth += 1
                    elif tt[0] == 'punct' and tt[1] in CLOSE:
                        depth -= 1
                    elif depth == 0 and tt[1] == '=' and T(k + 1)[1] not in ('=', '>'):
                        break
                    elif depth == 0 and tt[1] in (';', ':'):
                        k = None
                        break
                    k += 1
                if k is None or k >= n:
                    ci += 1
                    continue
                pat_lo, pat_hi = ci + 1, k
            elif kind == 'for':
                k = ci + 1
                depth = 0
                while k < n:
                    tt = T(k)
                    if tt[0] == 'punct' and tt[1] in OPEN:
                        depth += 1
                    elif tt[0] == 'punct' and tt[1] in CLOSE:
                        depth -= 1
                    elif depth == 0 and tt[0] == 'ident' and tt[1] == 'in':
                        break
                    k += 1
                if k >= n:
                    ci += 1
                    continue
                pat_lo, pat_hi = ci + 1, k
            if kind is None:
                ci += 1
                continue
            binds = self._rewrite_pattern(code, pat_lo, pat_hi)
            if binds:
                if kind == 'let':
                    # insert after terminating ';'
                    k = pat_hi
                    depth = 0
                    while k < n:
                        tt = T(k)
                        if tt[0] == 'punct' and tt[1] in OPEN:
                            depth += 1
                        elif tt[0] == 'punct' and tt[1] in CLOSE:
                            depth -= 1
                        elif depth == 0 and tt[1] == ';':
                            break
                        k += 1
                    ins_at = T(k)[3]
                else:
                    # first '{' at paren depth 0 after pattern
                    k = pat_hi
                    while k < n:
                        tt = T(k)
                        if tt[0] == 'punct' and tt[1] in '([':
                            k = self._close(code, k) + 1
                            continue
                        if tt[1] == '{':
                            break
                        k += 1
                    if k >= n:
                        raise ExtractError('R1: no block after pattern at line %d' % self.line(t[2]))
                    ins_at = T(k)[3]
                self.edits.append((ins_at, 0, ' ' + ' '.join('let %s = *%s__r;' % (b, b) for b in binds)))
                self.rewrites.append(dict(rule='R1 ref-pattern', line=self.line(t[2]),
                                          what='&%s in pattern -> %s__r + let %s = *%s__r' % (binds[0], binds[0], binds[0], binds[0]) if len(binds) == 1
                                          else 'ref patterns for ' + ','.join(binds)))
            ci = pat_hi
        # match arms:  Some(&x) =>
        code = self.code()
        n = len(code)
        for ci in range(n - 1):
            if T(ci)[1] == '=' and T(ci + 1)[1] == '>' and T(ci)[3] == T(ci + 1)[2]:
                # pattern start: walk back to previous ',' '{' '}' at depth 0  (or '|')
                k = ci - 1
                depth = 0
                while k >= 0:
                    tt = T(k)
                    if tt[0] == 'punct' and tt[1] == '}' and depth == 0 and T(k + 1)[1] not in ('=', '|', 'if'):
                        break      # end of the previous arm's block
                    if tt[0] == 'punct' and tt[1] in CLOSE:
                        depth += 1
                    elif tt[0] == 'punct' and tt[1] in OPEN:
                        if depth == 0:
                            break
                        depth -= 1
                    elif depth == 0 and tt[1] == ',':
                        break
                    k -= 1
                binds = self._rewrite_pattern(code, k + 1, ci)
                if binds:
                    arrow_end = T(ci + 1)[3]
                    lets = ' '.join('let %s = *%s__r;' % (b, b) for b in binds)
                    if T(ci + 2)[1] == '{':
                        self.edits.append((T(ci + 2)[3], 0, ' ' + lets))
                    else:
                        # expression arm: wrap up to ',' at depth 0 or closing brace of match
                        e = ci + 2
                        depth = 0
                        while e < n:
                            tt = T(e)
                            if tt[0] == 'punct' and tt[1] in OPEN:
                                depth += 1
                            elif tt[0] == 'punct' and tt[1] in CLOSE:
                                if depth == 0:
                                    break
                                depth -= 1
                            elif depth == 0 and tt[1] == ',':
                                break
                            e += 1
                        self.edits.append((arrow_end, 0, ' { ' + lets))
                        self.edits.append((T(e - 1)[3], 0, ' }'))
                    self.rewrites.append(dict(rule='R1 ref-pattern', line=self.line(T(ci)[2]),
                                              what='match arm ref patterns for ' + ','.join(binds)))

    def _rewrite_pattern(self, code, lo, hi):
        """within code[lo:hi] replace `& ident` (preceded by '(' or ',') by ident__r"""
        binds = []
        T = lambda ci: self.toks[code[ci]]
        for k in range(lo, hi - 1):
            if T(k)[1] == '&' and T(k + 1)[0] == 'ident' and T(k + 1)[1] != 'mut' and k - 1 >= lo - 1 \
                    and T(k - 1)[1] in ('(', ','):
                name = T(k + 1)[1]
                a = T(k)[2]
                b = T(k + 1)[3]
                if any(e[0] == a for e in self.edits):
                    continue
                self.edits.append((a, b - a, name + '__r'))
                binds.append(name)
        return binds

    # ---- hint anchors -------------------------------------------------------------------
    def insert_top(self, text):
        self.edits.append((0, 0, '\n' + text + '\n'))

    def insert_tail(self, text):
        """before the final expression of the body (or at the very end if the body ends with ';'/'}' statement)"""
        stmts = self.statements()
        if not stmts:
            self.edits.append((len(self.text), 0, '\n' + text + '\n'))
            return
        a, b, terminated = stmts[-1]
        first_tok = [t for t in lex(self.text[a:b]) if t[0] not in ('ws', 'lcomment', 'bcomment')][0]
        if first_tok[1] in ('for', 'while'):
            terminated = True      # loops are unit-valued statements even in tail position
        if terminated:
            self.edits.append((len(self.text), 0, '\n' + text + '\n'))
        else:
            self.edits.append((a, 0, text + '\n'))

    def statements(self):
        """top-level statements of the body: list of (start_off, end_off, terminated_by_semicolon_or_block)"""
        code = self.code()
        T = lambda ci: self.toks[code[ci]]
        n = len(code)
        out = []
        ci = 0
        BLOCK_KW = ('if', 'for', 'while', 'loop', 'match', 'unsafe')
        while ci < n:
            start = ci
            first = T(ci)
            blocky = (first[0] == 'ident' and first[1] in BLOCK_KW) or first[1] == '{'
            k = ci
            term = False
            while k < n:
                tt = T(k)
                if tt[0] == 'punct' and tt[1] in '([':
                    k = self._close(code, k) + 1
                    continue
                if tt[1] == '{':
                    e = self._close(code, k)
                    nxt = T(e + 1)[1] if e + 1 < n else None
                    if blocky and nxt != 'else' and nxt not in ('.', '?') :
                        # a block statement ends here unless it is the last thing (then it is the tail expr)
                        k = e
                        term = e + 1 < n
                        if nxt == ';':
                            k = e + 1
                            term = True
                        break
                    k = e + 1
                    continue
                if tt[1] == ';':
                    term = True
                    break
                k += 1
            if k >= n:
                k = n - 1
            out.append((T(start)[2], T(k)[3], term))
            ci = k + 1
        return out

    def find_anchor(self, anchor_text, ordinal=None):
        """occurrences of the normalised token sequence in the body; returns (start_off, end_off)"""
        want = [t[1] for t in lex(anchor_text) if t[0] not in ('ws', 'lcomment', 'bcomment')]
        code = self.code()
        have = [self.toks[k][1] for k in code]
        hits = []
        for i in range(len(have) - len(want) + 1):
            if have[i:i + len(want)] == want:
                hits.append((self.toks[code[i]][2], self.toks[code[i + len(want) - 1]][3]))
        if ordinal is not None:
            if ordinal - 1 >= len(hits):
                raise ExtractError('hint anchor lost: occurrence %d of `%s`' % (ordinal, anchor_text))
            return hits[ordinal - 1]
        if len(hits) != 1:
            raise ExtractError('hint anchor lost: %d occurrences of `%s`' % (len(hits), anchor_text))
        return hits[0]

    def insert_after(self, anchor_text, text, ordinal=None):
        a, b = self.find_anchor(anchor_text, ordinal)
        self.edits.append((b, 0, '\n' + text + '\n'))

    def insert_before(self, anchor_text, text, ordinal=None):
        a, b = self.find_anchor(anchor_text, ordinal)
        self.edits.append((a, 0, text + '\n'))

    def loops(self):
        """code indices of loop keywords in order, with index of body '{'"""
        code = self.code()
        T = lambda ci: self.toks[code[ci]]
        n = len(code)
        res = []
        for ci in range(n):
            t = T(ci)
            if t[0] == 'ident' and t[1] in ('for', 'while', 'loop'):
                if ci > 0 and T(ci - 1)[1] in ('.', '::'):
                    continue
                if t[1] == 'for' and ci + 1 < n and T(ci + 1)[1] == '<':
                    continue  # for<'a>
                k = ci + 1
                while k < n:
                    tt = T(k)
                    if tt[0] == 'punct' and tt[1] in '([':
                        k = self._close(code, k) + 1
                        continue
                    if tt[1] == '{':
                        break
                    k += 1
                in_ci = None
                if t[1] == 'for':
                    d = 0
                    for x in range(ci + 1, k):
                        tx = T(x)
                        if tx[0] == 'punct' and tx[1] in OPEN:
                            d += 1
                        elif tx[0] == 'punct' and tx[1] in CLOSE:
                            d -= 1
                        elif d == 0 and tx[0] == 'ident' and tx[1] == 'in':
                            in_ci = x
                            break
                res.append(dict(kw=t[1], kw_tok=t, brace_tok=T(k), in_tok=T(in_ci) if in_ci is not None else None))
        return res

    def insert_loop(self, ordinal, text, iter_name=None):
        ls = self.loops()
        if ordinal - 1 >= len(ls):
            raise ExtractError('hint anchor lost: loop %d (body has %d loops)' % (ordinal, len(ls)))
        l = ls[ordinal - 1]
        self.edits.append((l['brace_tok'][2], 0, '\n' + text + '\n'))
        if iter_name:
            if l['in_tok'] is None:
                raise ExtractError('iter= on a non-for loop')
            self.edits.append((l['in_tok'][3], 0, ' %s:' % iter_name))


# ----------------------------------------------------------------------------------------
# R5/R6 on type definitions
# ----------------------------------------------------------------------------------------
KEEP_DERIVES = ('Clone', 'Copy', 'PartialEq', 'Eq', 'Hash')


def rewrite_type_def(src, item, kw, keep_derives=KEEP_DERIVES):
    rewrites = []
    attrs_out = []
    for a in item['attrs']:
        m = re.match(r'#\s*\[\s*derive\s*\((.*)\)\s*\]\s*$', a, re.S)
        if m:
            names = [x.strip() for x in m.group(1).split(',') if x.strip()]
            keep = [x for x in names if x.split('::')[-1] in keep_derives]
            dropped = [x for x in names if x not in keep]
            if dropped:
                rewrites.append(dict(rule='R5 derives', line=src.line_of(src.tok(item['start'])[2]), what='dropped derive(' + ', '.join(dropped) + ')'))
            if 'Structural' in keep_derives:
                # `Structural` is Verus' marker that `==` / `!=` of the type is structural equality.  It is added ONLY when the
                # source derives PartialEq and Eq (a derived PartialEq IS structural equality; a hand-written impl would not qualify).
                if 'PartialEq' in [x.split('::')[-1] for x in names] and 'Eq' in [x.split('::')[-1] for x in names]:
                    keep = keep + ['Structural']
                    rewrites.append(dict(rule='R5 derives', line=src.line_of(src.tok(item['start'])[2]), what='added Verus marker Structural (the source derives PartialEq, Eq)'))
                else:
                    raise ExtractError('derive(PartialEq, Eq) is gone from the definition: the Structural marker would be an unfounded assumption')
            if keep:
                attrs_out.append('#[derive(%s)]' % ', '.join(keep))
        else:
            rewrites.append(dict(rule='R5 attribute', line=src.line_of(src.tok(item['start'])[2]), what='dropped ' + normalise(a)))
    body = src.text_between(item['kw_ci'], item['end'])
    # drop field attributes (#[serde(..)] etc.) and doc comments; make fields pub
    toks = lex(body)
    out = []
    code = [k for k, t in enumerate(toks) if t[0] not in ('ws', 'lcomment', 'bcomment')]
    # remove attributes inside
    skip = set()
    for i, k in enumerate(code):
        if toks[k][1] == '#' and i + 1 < len(code) and toks[code[i + 1]][1] == '[':
            e = match_close(toks, code[i + 1])
            for x in range(k, e + 1):
                skip.add(x)
            rewrites.append(dict(rule='R5 attribute', line=src.line_of(src.tok(item['kw_ci'])[2]), what='dropped field attribute'))
    if kw == 'struct':
        # find the field block
        depth = 0
        brace_open = None
        for i, k in enumerate(code):
            if toks[k][1] == '{':
                brace_open = i
                break
        made_pub = 0
        if brace_open is not None:
            # a field starts after '{' or after ',' at depth 1
            depth = 0
            expect_field = False
            for i in range(brace_open, len(code)):
                k = code[i]
                if k in skip:
                    continue
                tx = toks[k]
                if tx[0] == 'punct' and tx[1] in OPEN:
                    depth += 1
                    if depth == 1 and tx[1] == '{':
                        expect_field = True
                    continue
                if tx[0] == 'punct' and tx[1] in CLOSE:
                    depth -= 1
                    continue
                if tx[1] == '<':
                    depth += 1
                    continue
                if tx[1] == '>' and toks[code[i - 1]][1] != '-':
                    depth -= 1
                    continue
                if depth == 1 and tx[1] == ',':
                    expect_field = True
                    continue
                if depth == 1 and expect_field and tx[0] == 'ident':
                    expect_field = False
                    if tx[1] == 'pub':
                        # pub(crate) -> pub
                        if toks[code[i + 1]][1] == '(':
                            e = match_close(toks, code[i + 1])
                            for x in range(code[i + 1], e + 1):
                                skip.add(x)
                            made_pub += 1
                    else:
                        toks[k] = (tx[0], 'pub ' + tx[1], tx[2], tx[3])
                        made_pub += 1
        if brace_open is None:
            # tuple struct:  struct Name(T, U);  -> every field pub
            par = None
            for i, k in enumerate(code):
                if toks[k][1] == '(':
                    par = i
                    break
            if par is not None:
                depth = 0
                expect_field = False
                for i in range(par, len(code)):
                    k = code[i]
                    tx = toks[k]
                    if tx[0] == 'punct' and tx[1] in OPEN:
                        depth += 1
                        if depth == 1:
                            expect_field = True
                        continue
                    if tx[0] == 'punct' and tx[1] in CLOSE:
                        depth -= 1
                        continue
                    if tx[1] == '<':
                        depth += 1
                        continue
                    if tx[1] == '>' and toks[code[i - 1]][1] != '-':
                        depth -= 1
                        continue
                    if depth == 1 and tx[1] == ',':
                        expect_field = True
                        continue
                    if depth == 1 and expect_field:
                        expect_field = False
                        if not (tx[0] == 'ident' and tx[1] == 'pub'):
                            toks[k] = (tx[0], 'pub ' + tx[1], tx[2], tx[3])
                            made_pub += 1
        if made_pub:
            rewrites.append(dict(rule='R6 visibility', line=src.line_of(src.tok(item['kw_ci'])[2]), what='%d fields made pub' % made_pub))
    text = ''.join(t[1] for k, t in enumerate(toks) if k not in skip and t[0] not in ('lcomment', 'bcomment') or (t[0] == 'ws'))
    return '\n'.join(attrs_out) + ('\n' if attrs_out else '') + 'pub ' + text, rewrites


def sha256(s):
    return hashlib.sha256(s.encode()).hexdigest()
