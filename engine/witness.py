"""Replay support: for a failed Verus obligation, look for a concrete failing input by running
an executable rendering of the same contract clause against the REAL crate (native cargo test
on the copied tree).  A witness is never evidence for a pass; it only turns
`no-failing-input-found` into a replayable counterexample.
"""
import json
import os
import re
import shutil
import subprocess


def _norm(s):
    return re.sub(r'\W+', '_', s).strip('_')


EXTRA_WITNESS = {}
TIER = ['quick']


def _witness_files(VERIF, unit):
    import glob
    d = os.path.join(VERIF, 'contracts', 'witness')
    extra = [os.path.join(d, f) for f in EXTRA_WITNESS.get(unit, [])]
    return sorted(set(glob.glob(os.path.join(d, unit + '.rs')) + glob.glob(os.path.join(d, unit + '.*.rs')) + extra))


def _crate_of(path):
    first = open(path).readline()
    m = re.match(r'//\s*crate:\s*(\S+)', first)
    return m.group(1) if m else 'shared'


def _tests_in(path):
    return re.findall(r'#\[test\]\s*(?:#\[[^\]]*\]\s*)*fn\s+(w__\w+)', open(path).read())


def run_native_test(src, BUILD, crate, wfile, unit, names, timeout=3600):
    """Native runs use ONE shared copy of the tree (.build/native/src, re-synced from the property's copy under a
    lock) and one target directory: a target directory shared between several source copies was observed to run
    stale test binaries."""
    import fcntl
    ndir = os.path.join(BUILD, 'native')
    os.makedirs(ndir, exist_ok=True)
    lock = open(os.path.join(ndir, '.lock'), 'w')
    fcntl.flock(lock, fcntl.LOCK_EX)
    nsrc = os.path.join(ndir, 'src')
    os.makedirs(nsrc, exist_ok=True)
    # --checksum: only files whose CONTENT differs are touched, so cargo rebuilds exactly what changed
    # (no -t: changed files get a fresh mtime, see sync_tree)
    subprocess.run(['rsync', '-rlpgoD', '--checksum', '--delete', '--exclude', '/target', '--exclude', '*/tests/verif_witness_*',
                    src + '/', nsrc + '/'], check=True, stderr=subprocess.DEVNULL, stdout=subprocess.DEVNULL)
    # harness lines appended for Kani must not leak into native builds
    tdir = os.path.join(nsrc, crate, 'tests')
    os.makedirs(tdir, exist_ok=True)
    tname = 'verif_witness_' + _norm(os.path.basename(wfile)[:-3])
    dst = os.path.join(tdir, tname + '.rs')
    new_text = open(wfile).read()
    if not os.path.exists(dst) or open(dst).read() != new_text:
        open(dst, 'w').write(new_text)
    env = dict(os.environ)
    env['CARGO_TARGET_DIR'] = os.path.join(BUILD, 'native-target')
    env['CARGO_NET_OFFLINE'] = 'true'
    env['RUST_BACKTRACE'] = '0'
    env['VERIF_TIER'] = TIER[0]
    cmd = ['cargo', 'test', '--offline', '-p', crate, '--test', tname, '--', '--test-threads', '4'] + list(names)
    try:
        p = subprocess.run(cmd, cwd=nsrc, env=env, capture_output=True, text=True, timeout=timeout)
    except subprocess.TimeoutExpired:
        fcntl.flock(lock, fcntl.LOCK_UN)
        return None, 'timeout', ' '.join(cmd)
    fcntl.flock(lock, fcntl.LOCK_UN)
    out = p.stdout + '\n' + p.stderr
    res = {}
    for m in re.finditer(r'^test (w__\w+) \.\.\. (ok|FAILED)', out, re.M):
        res[m.group(1)] = m.group(2)
    msgs = {}
    for m in re.finditer(r"thread '(w__\w+)'[^\n]*panicked at [^\n]*\n([^\n]*)", out):
        msgs[m.group(1)] = m.group(2).strip()
    if not res and p.returncode != 0:
        return None, out[-1500:], ' '.join(cmd)
    return dict((k, (v, msgs.get(k, ''))) for k, v in res.items()), out[-3000:], ' '.join(cmd)


def search(res, pc, src, BUILD, VERIF):
    EXTRA_WITNESS.clear()
    EXTRA_WITNESS.update(pc.get('witness_files', {}))
    by_unit = {}
    for v in res.violations:
        if v.get('witness') or v.get('back_end') == 'kani':
            continue
        by_unit.setdefault(v['unit'], []).append(v)
    for unit, vs in by_unit.items():
        for wf in _witness_files(VERIF, unit):
            _search_file(res, unit, [v for v in vs if not v.get('witness')], wf, src, BUILD, VERIF)


def _search_file(res, unit, vs, wf, src, BUILD, VERIF):
        crate = _crate_of(wf)
        tests = _tests_in(wf)
        wanted = set()
        for v in vs:
            fpre = 'w__' + _norm(v['fn']) + '__'
            v['_cands'] = [t for t in tests if t.startswith(fpre + _norm(v['clause'] or ''))] or [t for t in tests if t.startswith(fpre)]
            wanted.update(v['_cands'])
        if not wanted:
            return
        results, tail, cmd = run_native_test(src, BUILD, crate, wf, unit, sorted(wanted))
        if results is None:
            for v in vs:
                v['note'] = 'witness search could not run: ' + str(tail)[-400:]
            return
        for v in vs:
            for t in v['_cands']:
                st = results.get(t)
                if st and st[0] == 'FAILED':
                    v['witness'] = dict(kind='native-test', crate=crate, unit=unit, test=t, message=st[1], cmd=cmd,
                                        file=os.path.relpath(wf, VERIF))
                    break
            v.pop('_cands', None)
        # write replay files for witnessed violations
        for v in vs:
            if v.get('witness'):
                rp = os.path.join(VERIF, 'replay', '%s_%s.json' % (res.pid, _norm(v['obligation'])[:80]))
                json.dump(dict(property=res.pid, kind='native-test', obligation=v['obligation'], unit=unit, fn=v['fn'], clause=v['clause'],
                               verifier_reason=v['reason'], verifier_output=v.get('rendered'), witness=v['witness']), open(rp, 'w'), indent=1)
                v['replay'] = rp


def replay(pid, path, BUILD, VERIF, REPO):
    d = json.load(open(path))
    if d.get('kind') == 'native-test':
        import main as M
        src = M.sync_tree(pid)
        w = d['witness']
        wf = os.path.join(VERIF, w['file'])
        results, tail, cmd = run_native_test(src, BUILD, w['crate'], wf, w['unit'], [w['test']])
        print(tail)
        if results and results.get(w['test'], ('',))[0] == 'FAILED':
            print('REPLAYED property=%s obligation="%s" input: %s' % (pid, d['obligation'], results[w['test']][1]))
            return 1
        print('NOT-REPRODUCED property=%s obligation="%s"' % (pid, d['obligation']))
        return 0
    if d.get('kind') == 'kani-playback':
        import kani_unit as KU
        return KU.replay(pid, d, BUILD, VERIF, REPO)
    print(json.dumps(d, indent=1))
    print('failed obligation without a concrete input (no-failing-input-found): re-run ./check %s to re-evaluate it' % pid)
    return 1


def selfcheck(pid, cfg, BUILD, VERIF):
    import main as M
    src = M.sync_tree(pid)
    pc = cfg[pid]
    bad = 0
    for unit in pc.get('verus', []) + pc.get('verus_thorough', []):
        for wf in _witness_files(VERIF, unit):
            results, tail, cmd = run_native_test(src, BUILD, _crate_of(wf), wf, unit, [])
            if results is None:
                print('witness file %s could not run:\n%s' % (wf, tail))
                bad += 1
                continue
            for t, (st, msg) in sorted(results.items()):
                print('%-60s %s %s' % (t, st, msg[:200]))
                if st != 'ok':
                    bad += 1
    return 1 if bad else 0


def run_bounded_units(res, pc, src, BUILD, VERIF, tier):
    """Standing bounded stand-ins for functions that no verifier here can read (labelled bounded, never counted as
    proved): executable contract checks over an exhaustively enumerated small universe, run natively on the real crate."""
    TIER[0] = tier
    units = list(pc.get('bounded', [])) + (pc.get('bounded_thorough', []) if tier == 'thorough' else [])
    for bu in units:
        wf = os.path.join(VERIF, 'contracts', 'witness', bu['file'])
        bound_txt = bu['bound'] + ((' | thorough tier: ' + bu['bound_thorough']) if tier == 'thorough' and bu.get('bound_thorough') else '')
        info = dict(unit=bu['name'], back_end='native exhaustive small-scope check (BOUNDED stand-in, not a proof)', bound=bound_txt,
                    functions=bu.get('functions', []), tests=bu['tests'], status='?')
        res.units.append(info)
        import time
        t0 = time.time()
        results, tail, cmd = run_native_test(src, BUILD, _crate_of(wf), wf, bu['name'], bu['tests'], timeout=bu.get('timeout_s', 3600))
        info['wall_s'] = round(time.time() - t0, 1)
        res.checker_cmds.append(cmd)
        if results is None:
            info['status'] = 'undecided'
            res.undecided.append('bounded unit %s could not run (build failure of the copied tree?): %s' % (bu['name'], str(tail)[-300:].replace('\n', ' ')))
            continue
        missing = [t for t in bu['tests'] if t not in results]
        if missing:
            info['status'] = 'undecided'
            res.undecided.append('bounded unit %s: tests did not run: %s' % (bu['name'], ', '.join(missing)))
            continue
        bad = [(t, results[t][1]) for t in bu['tests'] if results[t][0] != 'ok']
        res.extra.setdefault('bounded_standins', []).append(dict(unit=bu['name'], bound=bound_txt, functions=bu.get('functions', []), tests=len(bu['tests']),
                                                                 passed=len(bu['tests']) - len(bad), note='bounded - NOT counted in obligations/discharged'))
        for f in bu.get('functions', []):
            res.functions.append(dict(file=f['file'], fn=f['fn'], back_end='native bounded stand-in', strength='B(' + bu['bound'] + ')', rewrites=[], clauses=[]))
        if bad:
            info['status'] = 'violation'
            for t, msg in bad:
                ob = '%s/%s :: bounded contract check failed' % (bu['name'], t)
                w = dict(kind='native-test', crate=_crate_of(wf), unit=bu['name'], test=t, message=msg, cmd=cmd, file=os.path.relpath(wf, VERIF))
                rp = os.path.join(VERIF, 'replay', '%s_%s.json' % (res.pid, _norm(ob)[:80]))
                json.dump(dict(property=res.pid, kind='native-test', obligation=ob, unit=bu['name'], fn=t, clause='', verifier_reason='bounded stand-in', witness=w), open(rp, 'w'), indent=1)
                res.violations.append(dict(unit=bu['name'], fn=t, clause='', obligation=ob, reason='bounded stand-in failed', where='', rendered=msg, witness=w, replay=rp, back_end='native'))
        else:
            info['status'] = 'pass'
