def search(res, pc, src, BUILD, VERIF):
    pass
def replay(pid, path, BUILD, VERIF, REPO):
    print(open(path).read()); return 1
