#!/bin/sh
# developer helper: run one witness file natively against /repo's current tree (not a registered check)
# usage: selftest/native.sh <witness-file> [test-name-filter...]   (VERIF_TIER=thorough for the larger bounds)
set -u
W=$(readlink -f "$1"); shift
cd /verif
crate=$(head -1 "$W" | sed 's#// crate: *##')
mkdir -p .build/native/src
( flock 9
  rsync -rlpgoD --checksum --delete --exclude /target --exclude '*/tests/verif_witness_*' --exclude .git /repo/ .build/native/src/ >/dev/null 2>&1
  t=verif_witness_$(basename "$W" .rs | tr '.-' '__')
  mkdir -p .build/native/src/$crate/tests
  cmp -s "$W" .build/native/src/$crate/tests/$t.rs || cp "$W" .build/native/src/$crate/tests/$t.rs
  cd .build/native/src && CARGO_TARGET_DIR=/verif/.build/native-target CARGO_NET_OFFLINE=true RUST_BACKTRACE=0 cargo test --offline -p $crate --test $t -- --test-threads 4 "$@" 2>&1 | grep -E -A3 "^test |panicked at|test result|^error\[" | cut -c1-1200
) 9>.build/native/.lock
