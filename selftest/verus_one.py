#!/usr/bin/env python3
"""developer helper (not a registered check): generate ONE Verus unit from /repo's current tree and run verus on it,
without retries / demotion: prints the raw diagnostics.   usage: selftest/verus_one.py <property> <unit>"""
import sys, os, json, subprocess, time
sys.path.insert(0, os.path.join(os.path.dirname(__file__), '..', 'engine'))
import main as M, verus_unit as VU
pid, unit = sys.argv[1], sys.argv[2]
src = M.sync_tree(pid)
tmpl = os.path.join(M.VERIF, 'contracts', 'verus', unit + '.vrs.tmpl')
gen_dir = os.path.join(M.BUILD, pid, 'verus'); os.makedirs(gen_dir, exist_ok=True)
u = VU.Unit(unit, tmpl, src)
text = M.expand_includes(tmpl)
tmp_t = os.path.join(gen_dir, unit + '.tmpl.expanded'); open(tmp_t, 'w').write(text); u.tmpl_path = tmp_t
u.generate()
p = os.path.join(gen_dir, unit + '.rs'); open(p, 'w').write(u.generated)
print('generated', p, 'anchors lost:', u.anchors_lost)
t0 = time.time()
r = subprocess.run(['verus', p, '--time'] + sys.argv[3:], capture_output=True, text=True)
print((r.stdout + r.stderr)[-6000:])
print('wall %.1fs' % (time.time() - t0))
