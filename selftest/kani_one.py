#!/usr/bin/env python3
"""developer helper (not a registered check): run chosen harnesses of one Kani unit against /repo's current tree
usage: selftest/kani_one.py <property> <unit> <timeout_s> <harness>..."""
import sys, os, json, time
sys.path.insert(0, os.path.join(os.path.dirname(__file__), '..', 'engine'))
import main as M, kani_unit as K
pid, unit, timeout = sys.argv[1], sys.argv[2], int(sys.argv[3])
hs = sys.argv[4:]
cfg = json.load(open(os.path.join(M.VERIF, 'contracts', 'properties.json')))
ku = [k for k in cfg[pid].get('kani', []) + cfg[pid].get('kani_thorough', []) if k['name'] == unit][0]
src = M.sync_tree(pid)
hdst, err = K.mount(src, M.BUILD, M.VERIF, pid, ku)
assert not err, err
log = os.path.join(M.BUILD, pid, 'kani', 'one.log')
r = K.run_kani(src, M.BUILD, ku['crate'], hs, ku.get('flags', []), timeout, log, jobs=min(len(hs), 8))
print('rc', r['rc'], 'wall %.1fs' % r['wall_s'])
for h, v in K.parse_output(r['out']).items():
    print(h, v.get('verdict'), [f for f in v.get('failed', [])][:5], v.get('covers'))
