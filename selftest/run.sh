#!/bin/sh
# usage: selftest/run.sh <property> <patch-file> [tier]  - apply to /repo, run the check, always revert.
# The evidence file and replay files written by the run describe the PATCHED tree: the committed evidence file is
# put back afterwards (evidence files under version control are written by checks on the unchanged tree only).
set -u
P=$1; F=$(readlink -f "$2")
cd /repo && git apply "$F" || { echo "patch does not apply"; exit 3; }
cd /verif
[ -f evidence/$P.json ] && cp evidence/$P.json .build/evidence_$P.keep
./check "$P" --tier ${3:-quick}; rc=$?
[ -f .build/evidence_$P.keep ] && mv .build/evidence_$P.keep evidence/$P.json
git -C /repo checkout -- . ; git -C /repo clean -fdq -- . 2>/dev/null
echo "rc=$rc"
exit $rc
