#!/bin/sh
# usage: selftest/run.sh <property> <patch-file>   - apply to /repo, run quick check, always revert
set -u
P=$1; F=$(readlink -f "$2")
cd /repo && git apply "$F" || { echo "patch does not apply"; exit 3; }
cd /verif && ./check "$P" --tier ${3:-quick}; rc=$?
git -C /repo checkout -- . ; git -C /repo clean -fdq -- . 2>/dev/null
echo "rc=$rc"
exit $rc
